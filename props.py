"""Which contracts / lemmas decide which property (read by pyvc.prop)."""
CMD = "msmart.device.AC.command."
DEV = "msmart.device.AC.device.AirConditioner."

COMMON_ASSUMPTIONS = [
    "pyvc symbolic executor and its model of Python semantics (DESIGN.md 2.3): mathematical integers, bit-vector encoding with interval-checked no-overflow, byte strings shorter than 2^40",
    "z3 4.x/5.x soundness",
    "closed world: classes and methods as defined in /repo (no monkey patching, no subclass overrides outside /repo)",
    "logging calls (_LOGGER.*): the arguments are evaluated (an argument outside the supported subset is dropped and listed as log-argument-not-evaluated); the logging module may or may not format them, "
    "so an argument whose __str__/__repr__ has effects is explored both ways; `if` arms and loop bodies that only log are not entered",
]

C12_TARGETS = [
    "crc8.table", "crc8.step_range", "msmart.crc8.calculate",
    "msmart.frame.Frame.checksum", "msmart.frame.Frame.tobytes",
    "C12.ids_advance_by_one", CMD + "Command._next_message_id", CMD + "Command.tobytes",
    CMD + "GetCapabilitiesCommand.__init__", CMD + "GetCapabilitiesCommand.tobytes",
    CMD + "GetStateCommand.__init__", CMD + "GetStateCommand.tobytes",
    CMD + "GetEnergyUsageCommand.__init__", CMD + "GetEnergyUsageCommand.tobytes",
    CMD + "GetHumidityCommand.__init__", CMD + "GetHumidityCommand.tobytes",
    CMD + "ToggleDisplayCommand.__init__", CMD + "ToggleDisplayCommand.tobytes",
    CMD + "SetStateCommand.__init__", CMD + "SetStateCommand.tobytes",
]

AC = "msmart.device.AC.device.AirConditioner"

C12_FILTER = r"\.(post\.(wf|len|id|inv|query|toggle|body|length|checksum|payload|page|indoor|beep|props|consecutive|range|table_is_polynomial|table_len)|returns|assign\.|call\.|loop\d|frame\.|noraise|raises)"

LANM = "msmart.lan."
V3 = LANM + "_LanProtocolV3"
LANC = LANM + "LAN"
DEVB = "msmart.base_device.Device"

DISCM = "msmart.discover."

CLOUDM = "msmart.cloud."

GETTERS = {
    "C11": [AC + ".power_state", AC + ".fahrenheit", AC + ".target_temperature", AC + ".indoor_temperature", AC + ".outdoor_temperature", AC + ".operational_mode", AC + ".fan_speed", AC + ".swing_mode", AC + ".eco", AC + ".turbo", AC + ".freeze_protection", AC + ".sleep", AC + ".follow_me", AC + ".purifier", AC + ".display_on", AC + ".filter_alert", AC + ".target_humidity", AC + ".indoor_humidity", AC + ".aux_mode", AC + ".beep", AC + ".total_energy_usage", AC + ".current_energy_usage", AC + ".real_time_power_usage", AC + ".supports_eco_mode", AC + ".eco_mode", AC + ".supports_freeze_protection_mode", AC + ".freeze_protection_mode", AC + ".sleep_mode", AC + ".supports_turbo_mode", AC + ".turbo_mode"],
    "C16": [AC + ".horizontal_swing_angle", AC + ".vertical_swing_angle", AC + ".ieco", AC + ".rate_select", AC + ".self_clean_active"],
    "C15": [AC + ".min_target_temperature", AC + ".max_target_temperature", AC + ".supported_operation_modes", AC + ".supported_fan_speeds", AC + ".supports_custom_fan_speed", AC + ".supported_swing_modes", AC + ".supports_eco", AC + ".supports_turbo", AC + ".supports_freeze_protection", AC + ".supports_purifier", AC + ".supports_display_control", AC + ".supports_filter_reminder", AC + ".supports_humidity", AC + ".supports_target_humidity", AC + ".supported_rate_selects", AC + ".supported_aux_modes", AC + ".enable_energy_usage_requests", AC + ".use_alternate_energy_format", AC + ".supports_breeze_away", AC + ".supports_breeze_mild", AC + ".supports_breezeless", AC + ".supports_horizontal_swing_angle", AC + ".supports_vertical_swing_angle", AC + ".supports_ieco", AC + ".supports_self_clean"],
    "C17": [DEVB + ".ip", DEVB + ".port", DEVB + ".id", DEVB + ".type", DEVB + ".name", DEVB + ".sn", DEVB + ".version", DEVB + ".online", DEVB + ".supported"],
}

PROPS = {
    "C01": {"targets": [LANM + "_LanProtocol.connection_made", LANM + "_LanProtocol.connection_lost", V3 + ".__init__", LANM + "_LanProtocol.__init__", AC + ".__init__", LANC + ".__init__", "C01.spec_decoders_invert", "msmart.lan._LanProtocol.data_received#v2_segmentation",
                        (AC + ".apply", r"c10\.|control_first|noraise"), CMD + "SetStateCommand.tobytes", CMD + "Command.tobytes", "msmart.frame.Frame.tobytes",
                        AC + "._send_command_get_responses", DEVB + "._send_command#transport", LANC + ".send", LANC + "._read",
                        LANM + "_Packet.encode", LANM + "_Packet.decode", LANM + "_Packet.decode#interop",
                        V3 + "._encode_encrypted_request", V3 + "._process_packet#interop", V3 + ".write", V3 + ".data_received",
                        CMD + "Response.construct", CMD + "StateResponse.__init__", AC + "._update_state", AC + ".refresh#one_state_response", (AC + ".refresh", r"whole_response|noraise|call\.")],
            "level": "proof"},
    "C19": {"targets": [CLOUDM + "BaseCloud.get_token", CLOUDM + "BaseCloud._post_request", CLOUDM + "NetHomePlusCloud._parse_response",
                        CLOUDM + "NetHomePlusCloud.__init__", CLOUDM + "NetHomePlusCloud.login", CLOUDM + "NetHomePlusCloud._Security.encrypt_password#derivation", DISCM + "Discover._get_cloud",
                        CLOUDM + "SmartHomeCloud.__init__", CLOUDM + "SmartHomeCloud._Security.sign#derivation", CLOUDM + "SmartHomeCloud._Security.encrypt_password#derivation",
                        CLOUDM + "SmartHomeCloud._Security.encrypt_iam_password#derivation",
                        "msmart.lan.Security.udpid", DISCM + "Discover._authenticate_device"],
            "level": "proof"},
    "C17": {"targets": [DISCM + "Discover.discover_single", DISCM + "_DiscoverProtocol.__init__", DISCM + "_DiscoverProtocol.datagram_received", DISCM + "Discover._get_device_version", DISCM + "Discover._get_device_info#wellformed", DISCM + "Discover._get_device_class",
                        DISCM + "Discover._get_device", DISCM + "Discover._get_device#wellformed", DISCM + "_DiscoverProtocol._send_discovery", "C17.discovery_probe_is_pinned"] + GETTERS["C17"],
            "level": "proof"},
    "C18": {"targets": [DISCM + "_DiscoverProtocol.__init__", DISCM + "_DiscoverProtocol.datagram_received", DISCM + "Discover._get_device", DISCM + "Discover._get_device_info",
                        DISCM + "Discover._get_device_version"],
            "level": "proof"},
    "C02": {"targets": [LANM + "_Packet._timestamp", LANM + "_Packet.encode", LANM + "_Packet.decode", LANM + "_Packet.decode#interop"],
            "level": "proof"},
    "C03": {"targets": [LANC + "._read", LANM + "_Packet.decode", LANM + "_Packet.decode#truncated", LANM + "_Packet.decode#interop",
                        LANM + "_Packet.decode#signature_tamper", LANM + "_Packet.decode#marker_tamper"],
            "level": "proof"},
    "C04": {"targets": [V3 + ".__init__", V3 + ".data_received", V3 + ".read"], "level": "proof"},
    "C05": {"targets": [V3 + ".__init__", V3 + "._encode_encrypted_request", V3 + "._decode_encrypted_response", V3 + "._process_packet",
                        V3 + "._process_packet#interop", V3 + ".write"], "level": "proof"},
    "C06": {"targets": [V3 + "._process_packet#handshake_reply_bits", V3 + ".__init__", LANC + ".authenticate#hex_credentials", V3 + "._process_packet", V3 + ".read", V3 + "._encode_handshake_request", V3 + "._get_local_key", V3 + "._get_local_key#genuine", V3 + ".authenticate",
                        LANM + "_LanProtocol._flush", V3 + ".write", LANC + ".authenticate", DEVB + ".authenticate"], "level": "proof"},
    "C07": {"targets": [LANM + "_LanProtocol.connection_made", LANM + "_LanProtocol.connection_lost", LANC + ".__init__", LANC + ".max_connection_lifetime!setter", V3 + ".__init__", LANM + "_LanProtocol.__init__", V3 + ".write", LANM + "_LanProtocol.write", V3 + ".authenticate", V3 + ".authenticated", LANM + "_LanProtocol.alive",
                        LANC + "._alive", LANC + "._connect", LANC + "._disconnect", LANC + ".authenticate", LANC + ".send"], "level": "proof"},
    "C08": {"targets": [LANM + "_LanProtocol.connection_made", LANM + "_LanProtocol.connection_lost", V3 + ".__init__", LANM + "_LanProtocol.__init__", LANC + ".__init__", LANC + ".send", LANC + ".authenticate", LANC + "._connect", LANC + "._disconnect", LANC + "._read", V3 + ".read", LANM + "_LanProtocol.read",
                        LANC + "._read_available", DEVB + "._send_command#transport", "msmart.device.AC.device.AirConditioner.refresh#no_valid_response"],
            "level": "proof"},
    "C09": {"targets": [LANM + "_LanProtocol.connection_made", LANM + "_LanProtocol.connection_lost", V3 + ".__init__", LANM + "_LanProtocol.__init__", LANM + "_Packet.decode", V3 + "._process_packet", V3 + "._decode_encrypted_response", V3 + "._get_local_key",
                        V3 + ".read", LANM + "_LanProtocol.read", LANC + "._read", LANC + "._read_available", LANC + ".send",
                        LANC + ".authenticate", DEVB + "._send_command#transport", DEVB + ".authenticate"], "level": "proof"},
    "C10": {"targets": [AC + ".__init__", AC + ".beep!setter", AC + ".power_state!setter", AC + ".fahrenheit!setter", AC + ".target_temperature!setter", AC + ".operational_mode!setter", AC + ".swing_mode!setter", AC + ".eco!setter", AC + ".turbo!setter", AC + ".freeze_protection!setter", AC + ".sleep!setter", AC + ".follow_me!setter", AC + ".purifier!setter", AC + ".target_humidity!setter", AC + ".aux_mode!setter", AC + ".fan_speed!setter",
                        CMD + "SetStateCommand.__init__", CMD + "SetStateCommand.tobytes", CMD + "Command.tobytes",
                        CMD + "Command._next_message_id", "msmart.frame.Frame.tobytes", "msmart.frame.Frame.checksum",
                        "msmart.crc8.calculate", "crc8.table", "crc8.step_range",
                        (AC + ".apply", r"c10\.|control_first|noraise|call\.")],
            "level": "proof"},
    "C11": {"targets": [CMD + "StateResponse._parse_temperature", CMD + "StateResponse._parse", CMD + "StateResponse.__init__",
                        (CMD + "Response.construct", r"dispatch|payload|long_enough|noraise|call\."),
                        AC + "._update_state#state"] + GETTERS["C11"],
            "level": "proof"},
    "C12": {"targets": C12_TARGETS + [CMD + "SetPropertiesCommand.__init__", CMD + "SetPropertiesCommand.tobytes",
                                       CMD + "GetPropertiesCommand.__init__", CMD + "GetPropertiesCommand.tobytes",
                                       CMD + "PropertyId.encode",
                                       (AC + "._send_command_get_responses", r"assign\.Command|noraise"), DEVB + "._send_command#transport"],
            "level": "proof"},
    "C13": {"targets": ["C13.sum_split.base", "C13.sum_split.step", "C13.single_byte_corruption_is_rejected", "C13.crc_step_injective", "C13.crc_split.base", "C13.crc_split.step", "C13.crc_diverges.base", "C13.crc_diverges.step",
                        "C13.crc_changes", "C13.fixed_up_substitution.char", "C13.fixed_up_substitution_is_dropped", "msmart.frame.Frame.validate", "msmart.frame.Frame.checksum", "msmart.crc8.calculate", "crc8.table", "crc8.step_range",
                        CMD + "Response.validate", CMD + "Response.construct",
                        AC + "._send_command_get_responses", AC + ".refresh#no_valid_response",
                        AC + "._update_state#other", AC + "._update_state#props"] + [DEVB + ".online", DEVB + ".supported", DEVB + ".to_dict", AC + ".to_dict"],
            "level": "proof"},
    "C14": {"targets": [CMD + "Response.construct", CMD + "StateResponse.__init__", CMD + "CapabilitiesResponse.__init__",
                        CMD + "CapabilitiesResponse._parse_capabilities", CMD + "PropertiesResponse.__init__",
                        CMD + "PropertiesResponse._parse", CMD + "PropertyId.decode",
                        AC + "._update_state#state", AC + "._update_state#props", AC + "._update_state#other", AC + "._update_capabilities", AC + "._send_command_get_responses",
                        AC + "._send_command_get_response_with_id", AC + ".refresh", AC + ".apply", AC + "._apply_properties",
                        AC + ".get_capabilities", AC + ".toggle_display", AC + ".start_self_clean"],
            "level": "proof"},
    "C15": {"targets": [CMD + "CapabilitiesResponse.fan_silent", CMD + "CapabilitiesResponse.fan_low", CMD + "CapabilitiesResponse.fan_medium", CMD + "CapabilitiesResponse.fan_high", CMD + "CapabilitiesResponse.fan_auto",
                        CMD + "CapabilitiesResponse._parse_capabilities#wf", CMD + "CapabilitiesResponse.merge",
                        AC + ".get_capabilities", AC + "._update_capabilities"] + GETTERS["C15"],
            "level": "proof"},
    "C16": {"targets": [AC + ".__init__", CMD + "PropertyId.encode", CMD + "PropertyId.decode", "C16.read_back", "C16.at_most_one_breeze_mode",
                        AC + ".breeze_away!setter", AC + ".breezeless!setter", AC + ".breeze_mild!setter", AC + ".ieco!setter",
                        AC + ".rate_select!setter", AC + ".horizontal_swing_angle!setter", AC + ".vertical_swing_angle!setter",
                        CMD + "SetPropertiesCommand.__init__", CMD + "SetPropertiesCommand.tobytes",
                        (AC + ".apply", r"c16\.|noraise|call\."), AC + ".apply#quiet_device", AC + "._apply_properties", AC + ".start_self_clean",
                        (AC + "._update_capabilities", r"props\.|noraise"), AC + "._update_state#props", (AC + ".refresh", r"whole_response|noraise|call\."),
                        CMD + "PropertiesResponse._parse#wf", CMD + "PropertiesResponse.__init__", CMD + "PropertiesResponse._parse"] + GETTERS["C16"],
            "level": "proof"},
}
