"""Which contracts / lemmas decide which property (read by pyvc.prop)."""
CMD = "msmart.device.AC.command."
DEV = "msmart.device.AC.device.AirConditioner."

COMMON_ASSUMPTIONS = [
    "pyvc symbolic executor and its model of Python semantics (DESIGN.md 2.3): mathematical integers, bit-vector encoding with interval-checked no-overflow, byte strings shorter than 2^40",
    "z3 4.x/5.x soundness",
    "closed world: classes and methods as defined in /repo (no monkey patching, no subclass overrides outside /repo)",
    "logging calls (_LOGGER.*) are dropped together with the evaluation of their arguments",
]

C12_TARGETS = [
    "crc8.table", "crc8.step_range", "msmart.crc8.calculate",
    "msmart.frame.Frame.checksum", "msmart.frame.Frame.tobytes",
    "C12.ids_advance_by_one", CMD + "Command._next_message_id", CMD + "Command.tobytes",
    CMD + "GetCapabilitiesCommand.__init__", CMD + "GetCapabilitiesCommand.tobytes",
    CMD + "GetStateCommand.__init__", CMD + "GetStateCommand.tobytes",
    CMD + "GetEnergyUsageCommand.__init__", CMD + "GetEnergyUsageCommand.tobytes",
    CMD + "GetHumidityCommand.__init__", CMD + "GetHumidityCommand.tobytes",
    CMD + "ToggleDisplayCommand.__init__", CMD + "ToggleDisplayCommand.tobytes",
    CMD + "SetStateCommand.__init__", CMD + "SetStateCommand.tobytes",
]

PROPS = {
    "C12": {
        "targets": C12_TARGETS,
        "level": "proof",
    },
}
