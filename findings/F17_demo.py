"""F17 (C16, C01): a property report that the device interleaves with the answer to the state command overwrote the
setting the user had just made, and apply() then transmitted the device's OLD value instead of the requested one.

apply() sends the 0x40 state command, feeds every response of that exchange to _update_state() and only afterwards reads
the changed properties back from the attributes to build the 0xB0 property write.  An unsolicited / late 0xB1 properties
response (carrying the value the device still has) in that exchange therefore replaced the pending value.

Run:  PYTHONPATH=/repo /venv/bin/python findings/F17_demo.py     exit 0 = the requested value is written, exit 1 = the defect
"""
import asyncio
import logging
import sys

from msmart.base_device import Device
from msmart.device import AirConditioner as AC
from msmart.device.AC.command import PropertyId, SetPropertiesCommand

logging.disable(logging.CRITICAL)

# the suite's own frames: a 0xC0 state response and a 0xB1 properties response reporting SWING_UD_ANGLE (0x0009) = 0 (OFF)
STATE = bytes.fromhex("aa23ac00000000000303c00145660000003c0010045c6800000000000000000000018426")
PROPS = bytes.fromhex("aa21ac00000000000303b10409000001000a00000100150000012b1e020000005fa3")


async def main():
    dev = AC(ip="10.0.0.1", port=6444, device_id=1)
    written = []

    async def fake_send(self, command):
        data = command.tobytes()
        if isinstance(command, SetPropertiesCommand):
            written.append(dict(command._properties))
            return []
        return [STATE, PROPS]          # the device interleaves a property report with its answer to the state command
    Device._send_command = fake_send
    dev._supported_properties.add(PropertyId.SWING_UD_ANGLE)

    dev.vertical_swing_angle = AC.SwingAngle.POS_3        # the user asks for position 3 (50)
    await dev.apply()
    if not written:
        print("no property write was sent at all")
        return 1
    got = written[0].get(PropertyId.SWING_UD_ANGLE)
    print(f"requested SWING_UD_ANGLE={int(AC.SwingAngle.POS_3)}, property write carried {got!r}")
    return 0 if got == AC.SwingAngle.POS_3 else 1

sys.exit(asyncio.run(main()))
