"""F14 (C18): a host that answers the discovery broadcast with a V1-style XML reply whose device-info port cannot be
connected to (closed port -> ConnectionRefusedError, port out of range -> OverflowError) made the per-host task raise;
asyncio.gather() in Discover.discover() re-raises it and the devices of every other host are lost.

Run:  PYTHONPATH=/repo /venv/bin/python findings/F14_demo.py     exit 0 = contained (repaired), exit 1 = the defect
"""
import asyncio
import logging
import sys

from msmart.discover import Discover

logging.disable(logging.CRITICAL)


async def main():
    bad = 0
    for xml in (b'<msg><body><device port="1"/></body></msg>',          # nothing listens on TCP port 1
                b'<msg><body><device port="99999"/></body></msg>',      # not a TCP port at all
                b'<msg><body><device port="-5"/></body></msg>'):
        try:
            dev = await Discover._get_device("127.0.0.1", 1, xml)
            print("contained:", xml, "->", dev)
        except Exception as e:      # noqa
            print("ESCAPES the per-host task:", xml, "->", type(e).__name__, e)
            bad += 1
    return bad

sys.exit(1 if asyncio.run(main()) else 0)
