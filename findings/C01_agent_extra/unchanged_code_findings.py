import asyncio
import sys
from hashlib import md5, sha256

from Crypto.Cipher import AES
from Crypto.Util import Padding

from msmart.device import AirConditioner as AC

# --------------------------------------------------------------------------
# Independent in-memory model of a Midea AC (V2 packet layer + V3 transport)
# --------------------------------------------------------------------------

_SIGN_KEY = "xhdiwjnchekd4d512chdjx5d8e4c394D2D7S".encode()
_ENC_KEY = md5(_SIGN_KEY).digest()

_CRC_POLY_TABLE = []
for _i in range(256):
    _c = _i
    for _ in range(8):
        _c = (_c >> 1) ^ 0x8C if _c & 1 else _c >> 1
    _CRC_POLY_TABLE.append(_c)


def crc8(data):
    crc = 0
    for b in data:
        crc = _CRC_POLY_TABLE[crc ^ b]
    return crc


def checksum(data):
    return (~sum(data) + 1) & 0xFF


def build_frame(frame_type, body, msg_id):
    """AA frame: 10 byte header + body + message id + crc8 + checksum."""
    payload = bytes(body) + bytes([msg_id])
    payload += bytes([crc8(payload)])
    header = bytearray(10)
    header[0] = 0xAA
    header[1] = 10 + len(payload)
    header[2] = 0xAC
    header[9] = frame_type
    frame = bytes(header) + payload
    return frame + bytes([checksum(frame[1:])])


def v2_encode(frame, device_id=0):
    enc = AES.new(_ENC_KEY, AES.MODE_ECB).encrypt(Padding.pad(frame, 16))
    length = 40 + len(enc) + 16
    header = b"\x5a\x5a\x01\x11" + length.to_bytes(2, "little") + b"\x20\x00"
    header += bytes(4) + bytes(8) + device_id.to_bytes(8, "little") + bytes(12)
    packet = header + enc
    return packet + md5(packet + _SIGN_KEY).digest()


def v2_decode(packet):
    assert packet[:2] == b"\x5a\x5a", "device: bad V2 start"
    length = int.from_bytes(packet[4:6], "little")
    assert length == len(packet), "device: bad V2 length"
    assert md5(packet[:-16] + _SIGN_KEY).digest() == packet[-16:], "device: bad V2 signature"
    return Padding.unpad(AES.new(_ENC_KEY, AES.MODE_ECB).decrypt(packet[40:-16]), 16)


class FakeTransport:
    def __init__(self, device):
        self._device = device
        self._closing = False

    def get_extra_info(self, name, default=None):
        return ("192.0.2.1", 6444) if name == "peername" else default

    def is_closing(self):
        return self._closing

    def close(self):
        self._closing = True

    def write(self, data):
        if not self._closing:
            self._device.on_bytes(bytes(data))


class FakeAC:
    """Model air conditioner. It mirrors whatever state it is commanded to."""

    TOKEN = bytes(range(64))
    KEY = bytes(range(100, 132))

    def __init__(self, version=3):
        self.version = version
        self.protocol = None
        self.local_key = None
        self.tx_count = 0
        self.segmenter = None  # callable(bytes) -> list of TCP segments
        self.requests = []  # request frame bodies seen (first byte = command id)
        self.state = dict(power=False, temp=20.0, mode=2, fan=60, swing=0, eco=False,
                          turbo=False, sleep=False, fahrenheit=False, follow_me=False,
                          purifier=False, humidity=45, freeze=False, aux=False, indep_aux=False)
        self.props = {}  # property id -> raw value bytes

    # ---- connection plumbing ------------------------------------------------
    async def create_connection(self, factory, host=None, port=None, **kwargs):
        protocol = factory()
        self.protocol = protocol
        self.local_key = None
        transport = FakeTransport(self)
        protocol.connection_made(transport)
        return transport, protocol

    def _deliver(self, data):
        """Hand bytes to the client as one or more TCP segments."""
        segments = self.segmenter(data) if self.segmenter else [data]
        loop = asyncio.get_event_loop()
        for seg in segments:
            loop.call_soon(self.protocol.data_received, seg)

    # ---- V3 transport layer -------------------------------------------------
    def _v3_encrypted(self, v2_packet):
        self.tx_count = (self.tx_count + 1) & 0xFFFF
        plain = self.tx_count.to_bytes(2, "big") + v2_packet
        pad = (-len(plain)) % 16
        plain += bytes(pad)
        size = len(plain) - 2 + 32
        header = b"\x83\x70" + size.to_bytes(2, "big") + b"\x20" + bytes([pad << 4 | 0x3])
        enc = AES.new(self.local_key, AES.MODE_CBC, iv=bytes(16)).encrypt(plain)
        return header + enc + sha256(header + plain).digest()

    def _on_v3(self, data):
        assert data[:2] == b"\x83\x70" and data[4] == 0x20, "device: bad V3 header"
        size = int.from_bytes(data[2:4], "big")
        assert len(data) == size + 8, "device: bad V3 size"
        ptype = data[5] & 0xF
        if ptype == 0x0:  # handshake request
            assert data[8:] == self.TOKEN, "device: bad token"
            rand = bytes((7 * i + 3) & 0xFF for i in range(32))
            self.local_key = bytes(a ^ b for a, b in zip(rand, self.KEY))
            enc = AES.new(self.KEY, AES.MODE_CBC, iv=bytes(16)).encrypt(rand)
            payload = enc + sha256(rand).digest()
            header = b"\x83\x70" + len(payload).to_bytes(2, "big") + b"\x20\x01"
            self._deliver(header + data[6:8] + payload)
        elif ptype == 0x6:  # encrypted request
            assert self.local_key is not None, "device: request before handshake"
            header, enc, rx_hash = data[:6], data[6:-32], data[-32:]
            plain = AES.new(self.local_key, AES.MODE_CBC, iv=bytes(16)).decrypt(enc)
            assert sha256(header + plain).digest() == rx_hash, "device: bad V3 hash"
            pad = header[5] >> 4
            self._on_v2(plain[2:len(plain) - pad])
        else:
            raise AssertionError("device: unexpected V3 packet type")

    def _send_frame(self, frame):
        packet = v2_encode(frame)
        self._deliver(self._v3_encrypted(packet) if self.version == 3 else packet)

    def on_bytes(self, data):
        if self.version == 3:
            self._on_v3(data)
        else:
            self._on_v2(data)

    # ---- application layer --------------------------------------------------
    def _on_v2(self, packet):
        frame = v2_decode(packet)
        assert frame[0] == 0xAA and frame[1] == len(frame) - 1, "device: bad frame length"
        assert checksum(frame[1:-1]) == frame[-1], "device: bad frame checksum"
        assert crc8(frame[10:-2]) == frame[-2], "device: bad frame crc"
        body, msg_id = frame[10:-3], frame[-3]
        self.requests.append(body)
        self.handle(frame[9], body, msg_id)

    def handle(self, frame_type, body, msg_id):
        cmd = body[0]
        if cmd == 0x40:
            self._set_state(body)
            self._send_frame(build_frame(0x02, self.state_body(), msg_id))
        elif cmd == 0x41 and body[1] == 0x81:
            self._send_frame(build_frame(0x03, self.state_body(), msg_id))
        elif cmd == 0xB0:
            self._send_frame(build_frame(0x02, self._set_props(body), msg_id))
        elif cmd == 0xB1:
            self._send_frame(build_frame(0x03, self._get_props(body), msg_id))
        # anything else is ignored (the client times out)

    def _set_state(self, b):
        s = self.state
        s["power"] = bool(b[1] & 0x1)
        s["mode"] = (b[2] >> 5) & 0x7
        if b[18] & 0x1F:
            s["temp"] = float((b[18] & 0x1F) + 12)
        else:
            s["temp"] = float((b[2] & 0xF) + 16)
        s["temp"] += 0.5 if b[2] & 0x10 else 0.0
        s["fan"] = b[3]
        s["swing"] = b[7] & 0xF
        s["follow_me"] = bool(b[8] & 0x80)
        s["turbo"] = bool(b[8] & 0x20) or bool(b[10] & 0x2)
        s["eco"] = bool(b[9] & 0x80)
        s["purifier"] = bool(b[9] & 0x20)
        s["aux"] = bool(b[9] & 0x08)
        s["sleep"] = bool(b[10] & 0x1)
        s["fahrenheit"] = bool(b[10] & 0x4)
        s["humidity"] = b[19] & 0x7F
        s["freeze"] = bool(b[21] & 0x80)
        s["indep_aux"] = bool(b[22] & 0x08)

    def state_body(self):
        s = self.state
        p = bytearray(23)
        p[0] = 0xC0
        p[1] = 0x1 if s["power"] else 0
        integral = int(s["temp"])
        half = 0x10 if s["temp"] - integral else 0
        if 17 <= integral <= 30:
            p[2] = ((integral - 16) & 0xF) | half | (s["mode"] << 5)
        else:
            p[2] = half | (s["mode"] << 5)
            p[13] = (integral - 12) & 0x1F
        p[3] = s["fan"]
        p[7] = 0x30 | s["swing"]
        p[8] = (0x20 if s["turbo"] else 0) | (0x40 if s["indep_aux"] else 0) | (0x80 if s["follow_me"] else 0)
        p[9] = (0x10 if s["eco"] else 0) | (0x20 if s["purifier"] else 0) | (0x08 if s["aux"] else 0)
        p[10] = (0x1 if s["sleep"] else 0) | (0x2 if s["turbo"] else 0) | (0x4 if s["fahrenheit"] else 0)
        p[11] = 0x60  # indoor 23.0
        p[12] = 0x70  # outdoor 31.0
        p[19] = s["humidity"] & 0x7F
        p[21] = 0x80 if s["freeze"] else 0
        return bytes(p)

    def _set_props(self, b):
        out = bytearray([0xB0, b[1]])
        pos = 2
        for _ in range(b[1]):
            pid = b[pos] | (b[pos + 1] << 8)
            size = b[pos + 2]
            value = bytes(b[pos + 3:pos + 3 + size])
            pos += 3 + size
            if pid != 0x001A:  # buzzer is not a stored property
                self.props[pid] = value
            out += bytes([pid & 0xFF, pid >> 8, 0x00, len(value)]) + value
        return bytes(out)

    def _get_props(self, b):
        out = bytearray([0xB1, b[1]])
        for i in range(b[1]):
            pid = b[2 + 2 * i] | (b[3 + 2 * i] << 8)
            value = self.props.get(pid, b"\x00")
            if pid == 0x00E3 and len(value) > 2:
                value = value[1:3]  # ieco reports number, switch
            out += bytes([pid & 0xFF, pid >> 8, 0x00, len(value)]) + value
        return bytes(out)

    def push_unsolicited_state(self, msg_id=0):
        """Device spontaneously reports its current state (e.g. after remote control use)."""
        self._send_frame(build_frame(0x04, self.state_body(), msg_id))


def client_view(dev):
    """State as reported by the library client, in the model's vocabulary."""
    return dict(power=dev.power_state, temp=dev.target_temperature, mode=int(dev.operational_mode),
                fan=int(dev.fan_speed), swing=int(dev.swing_mode), eco=dev.eco, turbo=dev.turbo,
                sleep=dev.sleep, fahrenheit=dev.fahrenheit, follow_me=dev.follow_me,
                purifier=dev.purifier, humidity=dev.target_humidity, freeze=dev.freeze_protection,
                aux=dev.aux_mode == AC.AuxHeatMode.AUX_HEAT,
                indep_aux=dev.aux_mode == AC.AuxHeatMode.AUX_ONLY)


def diff(a, b):
    return {k: (a[k], b[k]) for k in a if a[k] != b[k]}


async def new_client(model):
    """Create a library client wired to the model through an in-memory transport."""
    asyncio.get_event_loop().create_connection = model.create_connection
    dev = AC(ip="192.0.2.1", port=6444, device_id=0x1122334455)
    if model.version == 3:
        # Skip the fixed 1 s settle delay after authentication
        real_sleep = asyncio.sleep

        async def fast_sleep(delay, *a, **kw):
            await real_sleep(0)
        asyncio.sleep = fast_sleep
        try:
            await dev.authenticate(FakeAC.TOKEN, FakeAC.KEY)
        finally:
            asyncio.sleep = real_sleep
    return dev


def fail(msg):
    print("C01 VIOLATED: " + msg)
    sys.exit(1)


from msmart.device.AC.command import PropertyId


async def v2_segmentation():
    model = FakeAC(version=2)
    dev = await new_client(model)
    model.state.update(power=True, temp=27.0, mode=4)
    model.segmenter = lambda d: [d[:60], d[60:]]
    await dev.refresh()
    return diff(model.state, client_view(dev))


async def v2_coalescing():
    model = FakeAC(version=2)
    dev = await new_client(model)
    await dev.refresh()
    # unsolicited report of state S1 and, right behind it in the same TCP segment, the answer (state S2)
    pending = []
    orig_deliver = model._deliver
    model._deliver = lambda data: pending.append(data)
    model.state.update(power=True, temp=24.0)
    model.push_unsolicited_state()
    model.state.update(temp=18.0, mode=4)

    def handle(ft, body, mid, _h=model.handle):
        _h(ft, body, mid)
        orig_deliver(b"".join(pending))
        pending.clear()
    model.handle = handle
    await dev.refresh()
    return diff(model.state, client_view(dev))


async def apply_property_overwritten(version):
    model = FakeAC(version=version)
    dev = await new_client(model)
    dev._supported_properties.add(PropertyId.RATE_SELECT)
    model.props[0x48] = bytes([100])
    await dev.refresh()
    dev.rate_select = AC.RateSelect.LEVEL_3
    # device interleaves an unsolicited properties report (still the old value) with the set-state answer
    def handle(ft, body, mid, _h=model.handle):
        if body[0] == 0x40:
            model._send_frame(build_frame(0x04, model._get_props(bytes([0xB1, 1, 0x48, 0x00])), 0))
        _h(ft, body, mid)
    model.handle = handle
    await dev.apply()
    return {"device rate_select": model.props[0x48][0], "applied": int(AC.RateSelect.LEVEL_3)}


async def main():
    print("V2 reply split over two TCP segments -> device vs client:", await v2_segmentation())
    print("V2 unsolicited report + reply coalesced in one segment -> device vs client:", await v2_coalescing())
    print("apply() with interleaved unsolicited properties report (V3):", await apply_property_overwritten(3))


if __name__ == "__main__":
    import logging
    logging.disable(logging.CRITICAL)
    asyncio.run(main())
