"""F16 (C06, known finding): header bits of a V3 handshake reply that are not covered by the proof are not checked.

Run:  PYTHONPATH=/repo /venv/bin/python findings/F16_demo.py   exit 0 = every alteration of a meaningless bit still authenticates
(the finding as recorded), exit 1 = something else happened.
"""
import sys
from hashlib import sha256

from msmart.lan import Security, _LanProtocolV3

KEY = bytes(range(32))
NONCE = bytes(range(100, 132))
proof = Security.encrypt_aes_cbc(KEY, NONCE) + sha256(NONCE).digest()
genuine = bytes.fromhex("8370") + (64).to_bytes(2, "big") + bytes([0x20, 0x01]) + bytes([0x00, 0x05]) + proof
p = _LanProtocolV3()
expect = p._get_local_key(KEY, memoryview(p._process_packet(memoryview(genuine))))
bad = 0
for pos, mask in ((5, 0x10), (5, 0x80), (6, 0x01), (7, 0x80)):
    q = bytearray(genuine)
    q[pos] ^= mask
    try:
        got = p._get_local_key(KEY, memoryview(p._process_packet(memoryview(bytes(q)))))
    except Exception as e:      # noqa
        print(f"byte {pos} ^= {mask:#x}: rejected ({type(e).__name__})")
        bad += 1
        continue
    print(f"byte {pos} ^= {mask:#x}: accepted, same session key: {got == expect}")
    bad += got != expect
sys.exit(1 if bad else 0)
