"""F13 (C07/C06): a failed re-authentication on a live V3 connection leaves the client 'authenticated' under the session key of the
PREVIOUS handshake, although the device has answered a newer handshake on that connection (and moved to its key).
Run: PYTHONPATH=/repo /venv/bin/python /verif/findings/F13_demo.py   (exit 1 = violation shown, 0 = not reproduced)"""
import asyncio, os, sys
from hashlib import sha256
from Crypto.Cipher import AES
from Crypto.Util.strxor import strxor
from msmart.lan import LAN, _LanProtocolV3, AuthenticationError

TOKEN, KEY, WRONG = os.urandom(64), os.urandom(32), os.urandom(32)


class Device:
    """answers every handshake request with a fresh nonce; its session key is the one of the latest handshake"""
    def __init__(self):
        self.session = None
        self.written = []
        self.proto = None

    def write(self, data):
        self.written.append(bytes(data))
        ptype = data[5] & 0xF
        if ptype == 0:      # handshake request
            nonce = os.urandom(32)
            self.session = strxor(nonce, KEY)
            body = AES.new(KEY, AES.MODE_CBC, iv=bytes(16)).encrypt(nonce) + sha256(nonce).digest()
            pkt = b"\x83\x70" + len(body).to_bytes(2, "big") + b"\x20\x01" + b"\x00\x00" + body
            asyncio.get_event_loop().call_soon(self.proto.data_received, pkt)

    def is_closing(self): return False
    def close(self): pass
    def get_extra_info(self, *_): return ("10.0.0.1", 6444)


async def main():
    dev = Device()
    lan = LAN("10.0.0.1", 6444, 1234)

    async def fake_create_connection(factory, *a, **k):
        p = factory(); dev.proto = p; p.connection_made(dev); return dev, p
    asyncio.get_event_loop().create_connection = fake_create_connection
    real_sleep = asyncio.sleep
    asyncio.sleep = lambda s: real_sleep(0)

    await lan.authenticate(TOKEN, KEY)
    first = dev.session
    try:
        await lan.authenticate(TOKEN, WRONG)       # explicit authenticate with bad credentials on the same live connection
        print("unexpected: bad key accepted"); return 0
    except AuthenticationError:
        pass
    latest = dev.session
    proto = lan._protocol
    assert isinstance(proto, _LanProtocolV3)
    n = len(dev.written)
    try:
        await asyncio.wait_for(lan.send(b"\xaa\x0b" + bytes(9), retries=1), 3)
    except Exception as e:  # the device cannot answer a packet it cannot decrypt
        pass
    data = [p for p in dev.written[n:] if (p[5] & 0xF) == 6]
    hs = [p for p in dev.written[n:] if (p[5] & 0xF) == 0]
    if data and not hs:
        c = data[0][6:-32]
        under = lambda k: sha256(data[0][:6] + AES.new(k, AES.MODE_CBC, iv=bytes(16)).decrypt(c)).digest() == data[0][-32:]
        print("data packet written without a new handshake; encrypted under key of handshake #1:", under(first), " under key of latest handshake #2:", under(latest))
        if under(first) and not under(latest):
            print("VIOLATION: data packet is not encrypted under the session key of the latest handshake on its connection")
            return 1
    print("not reproduced: the client started with a new handshake", len(hs), len(data))
    return 0

sys.exit(asyncio.run(main()))
