"""F7 (C13, known finding, by design): single-byte body substitutions with the outer checksum recomputed that are accepted.

Run:  PYTHONPATH=/repo /venv/bin/python findings/F7_demo.py   prints the accepted substitutions of the suite's state frame and
checks that every one of them is inside the characterised set (lemma C13.fixed_up_substitution.char + the property-id exemption).
"""
import sys

from msmart import crc8
from msmart.device.AC.command import Response
from msmart.frame import Frame

f = bytearray.fromhex("aa23ac00000000000303c00145660000003c0010045c6800000000000000000000018426")
Response.construct(bytes(f))
accepted, outside, n = [], [], 0
for i in range(10, len(f) - 2):
    for v in range(256):
        if v == f[i]:
            continue
        g = bytearray(f)
        g[i] = v
        g[-1] = Frame.checksum(g[1:-1])
        n += 1
        try:
            Response.construct(bytes(g))
        except Exception:       # noqa
            continue
        accepted.append((i, v))
        body = g[10:-1]
        other_check = body[-1] == ((-sum(body[:-1])) & 0xFF) and body[-1] != crc8.calculate(body[:-1])
        exempt_class = i == 10 and v in (0xB0, 0xB1)
        if not (other_check or exempt_class):
            outside.append((i, v))
print(f"{len(accepted)} of {n} substitutions accepted:", accepted)
print("outside the characterised set:", outside)
sys.exit(1 if outside else 0)
