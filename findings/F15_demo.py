"""F15 (C19): Discover._authenticate_device gave up as soon as the cloud had no credentials for the little-endian udpid.

A device whose credentials are registered under the udpid derived from its id in BIG-endian byte order (the second order the
library is meant to try) was never authenticated when the cloud answered the little-endian lookup with a token list that has
no entry for it (or with an API error): get_token raised CloudError and _authenticate_device re-raised it before trying the
other byte order.

Run:  PYTHONPATH=/repo /venv/bin/python findings/F15_demo.py     exit 0 = authenticated with the registered credentials
"""
import asyncio
import json
import logging
import sys
from urllib.parse import parse_qs

import httpx

from msmart.base_device import Device
from msmart.cloud import CloudError, NetHomePlusCloud
from msmart.discover import Discover
from msmart.lan import AuthenticationError, Security

logging.disable(logging.CRITICAL)

DEVICE_ID = 147334558165565
UDPID_BE = Security.udpid(DEVICE_ID.to_bytes(6, "big")).hex()
UDPID_LE = Security.udpid(DEVICE_ID.to_bytes(6, "little")).hex()
TOKEN, KEY = "AB" * 64, "CD" * 32
MODE = {"unknown_udpid": "empty_list"}


def handler(request: httpx.Request) -> httpx.Response:
    form = {k: v[0] for k, v in parse_qs(request.content.decode()).items()}
    path = request.url.path
    if path == "/v1/user/login/id/get":
        return httpx.Response(200, text=json.dumps({"errorCode": "0", "result": {"loginId": "abc"}}))
    if path == "/v1/user/login":
        return httpx.Response(200, text=json.dumps({"errorCode": "0", "result": {"sessionId": "sess"}}))
    if path == "/v1/iot/secure/getToken":
        if form["udpid"] == UDPID_BE:       # the only id this device is registered under
            return httpx.Response(200, text=json.dumps({"errorCode": "0", "result": {"tokenlist": [{"udpId": UDPID_BE, "token": TOKEN, "key": KEY}]}}))
        if MODE["unknown_udpid"] == "empty_list":
            return httpx.Response(200, text=json.dumps({"errorCode": "0", "result": {"tokenlist": []}}))
        return httpx.Response(200, text=json.dumps({"errorCode": "3004", "msg": "value is illegal"}))
    return httpx.Response(404)


class FakeDevice(Device):
    def __init__(self):
        super().__init__(ip="10.0.0.9", port=6444, device_id=DEVICE_ID, device_type=0xAC, version=3)
        self.used = None

    async def authenticate(self, token, key):
        if (token, key) != (TOKEN, KEY):
            raise AuthenticationError("wrong credentials")
        self.used = (token, key)


async def main():
    bad = 0
    for mode in ("empty_list", "api_error"):
        MODE["unknown_udpid"] = mode
        Discover._lock = asyncio.Lock()
        Discover._cloud = None
        Discover._get_async_client = lambda *a, **k: httpx.AsyncClient(transport=httpx.MockTransport(handler))
        dev = FakeDevice()
        try:
            ok = await Discover._authenticate_device(dev)
        except CloudError as e:
            print(f"[{mode}] NOT AUTHENTICATED: CloudError before the big-endian id was tried: {e}")
            bad += 1
            continue
        if not ok or dev.used != (TOKEN, KEY):
            print(f"[{mode}] NOT AUTHENTICATED: result={ok} used={dev.used}")
            bad += 1
        else:
            print(f"[{mode}] authenticated with the credentials registered for the big-endian id")
    return bad

sys.exit(1 if asyncio.run(main()) else 0)
