"""F19 (C08): a malformed or stale packet that arrived while the connection was idle made the next LAN.send() fail with a
ProtocolError from the pre-send drain, before the request had been transmitted even once (and although the device was
ready to answer).  E.g. the late reply to a timed-out V3 handshake, or any unsolicited junk.

Run:  PYTHONPATH=/repo /venv/bin/python findings/F19_demo.py     exit 0 = the request is transmitted and answered
"""
import asyncio
import logging
import sys
from unittest.mock import MagicMock

from msmart.lan import LAN, ProtocolError, _LanProtocol, _Packet

logging.disable(logging.CRITICAL)
FRAME = bytes.fromhex("aa23ac00000000000303c00145660000003c0010045c6800000000000000000000018426")


async def main():
    lan = LAN("10.0.0.1", 6444, 1)
    proto = _LanProtocol()
    sent = []
    tr = MagicMock()
    tr.is_closing.return_value = False

    def write(data):
        sent.append(bytes(data))
        # the device answers promptly
        asyncio.get_event_loop().call_soon(proto.data_received, _Packet.encode(1, FRAME))
    tr.write.side_effect = write
    proto.connection_made(tr)
    lan._protocol = proto
    proto.data_received(b"\x83\x70\x00\x04\x20\x01\x00\x00junk")     # stale junk sits in the queue while idle
    try:
        res = await lan.send(b"\xaa\x0b\xac\x00\x00\x00\x00\x00\x00\x03\x46", retries=3)
    except ProtocolError as e:
        print(f"send() raised ProtocolError({e}) after {len(sent)} transmissions")
        return 1
    print(f"send() returned {len(res)} response(s) after {len(sent)} transmission(s)")
    return 0 if len(sent) >= 1 and FRAME in res else 1

sys.exit(asyncio.run(main()))
