"""F18 (C07): a connection lifetime configured while a connection already exists was never applied to that connection.

LAN._connection_expiration is computed only inside LAN._connect().  The usual order (discover / authenticate first, then
set_max_connection_lifetime()) leaves the existing connection without an expiry: long after the configured lifetime has
elapsed, send() still writes data to the old connection instead of starting a new one.

Run:  PYTHONPATH=/repo /venv/bin/python findings/F18_demo.py     exit 0 = reconnects once the lifetime has elapsed
"""
import asyncio
import logging
import sys
from datetime import datetime as real_datetime, timedelta
from unittest.mock import MagicMock

import msmart.lan as lan_mod
from msmart.lan import LAN, _LanProtocol

logging.disable(logging.CRITICAL)


class Clock(real_datetime):
    offset = timedelta(0)

    @classmethod
    def now(cls, tz=None):
        return real_datetime.now(tz) + cls.offset


lan_mod.datetime = Clock


async def main():
    lan = LAN("10.0.0.1", 6444, 1)
    connects = []

    async def fake_connect():
        p = _LanProtocol()
        t = MagicMock()
        t.is_closing.return_value = False
        p.connection_made(t)
        lan._protocol = p
        connects.append(p)
        if lan._max_connection_lifetime:
            lan._connection_expiration = Clock.now(lan_mod.timezone.utc) + lan._max_connection_lifetime
    lan._connect = fake_connect
    await lan._connect()                      # the connection exists (as after discovery with auto-connect)
    lan.max_connection_lifetime = 10          # now the user configures a 10 s lifetime
    Clock.offset += timedelta(seconds=60)     # ... which has long elapsed
    alive = lan._alive
    print(f"connection reported alive 60 s after a 10 s lifetime was configured: {alive}")
    return 1 if alive else 0

sys.exit(asyncio.run(main()))
