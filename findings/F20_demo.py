"""F20 (C17/C18): a datagram that is no Midea reply used up its source address.

history on one discovery run: junk datagram from 10.0.0.5, then a well-formed V2 reply from 10.0.0.5
expected (C17): the well-formed reply gets its per-host task (the device is reported)
run: PYTHONPATH=<repo> /venv/bin/python findings/F20_demo.py   -> exit 0 when the property holds, 1 otherwise
"""
import asyncio
import sys

from msmart.discover import Discover, _DiscoverProtocol

# any datagram with the V2 start marker 5a5a is classed as a V2 reply by _get_device_version; parsing is faked below
V2 = bytes.fromhex("5a5a011178007a8000000000000000000000000060ca0000000e0000000000000000000001000000c08651cb1b88a167bdcf7d37534ef81312d39429bf9b2673f200b635fa369f2c0f8dbc3a2f2d2ae2c88a8c8e6fc4ab2f80eb9f8f75e40d6a8f3f1c9c0f0d6f1d28c8e1b8d4e6f0a4c8a3e5c6f9d1a7b2c3d4e5f60718293a4b5c6d7e8f90")


async def main():
    created = []

    async def fake_get_device(ip, version, data):
        created.append((ip, version))
        return None
    Discover._get_device = staticmethod(fake_get_device) if not isinstance(Discover.__dict__["_get_device"], classmethod) else classmethod(lambda cls, ip, version, data: fake_get_device(ip, version, data))
    p = _DiscoverProtocol(target="255.255.255.255")
    p.datagram_received(b"\x00\x01junk that is not a midea reply", ("10.0.0.5", 6445))
    p.datagram_received(V2, ("10.0.0.5", 6445))
    p.datagram_received(V2, ("10.0.0.5", 20086))
    await asyncio.gather(*p.tasks)
    if len(p.tasks) != 1 or created != [("10.0.0.5", 2)]:
        print(f"VIOLATED: junk then well-formed V2 reply from the same address: tasks={len(p.tasks)} created={created} (expected exactly one V2 task)")
        return 1
    print("ok: exactly one task for the address, created by its well-formed reply")
    return 0

sys.exit(asyncio.run(main()))
