"""Operators on symbolic values (Python semantics; see DESIGN.md 2.3 for what is assumed)."""
from __future__ import annotations

import ast

import z3

from .values import (tid, BIG, FALSE, MAXLEN, NONE, TRUE, W, Lit, Unsupported, V, VBool, VBytes, VFloat,
                     VInt, VNone, VRef, VStr, VTuple, VUnion, View, as_const, concat, mkbool, mkint)


def is_pow2(n):
    return n > 0 and (n & (n - 1)) == 0


# ---------------------------------------------------------------------------------------------
# merging
# ---------------------------------------------------------------------------------------------

def _same_scalar(a, b):
    return type(a) is type(b) and isinstance(a, (VInt, VBool, VFloat, VNone))


def ite_value(c, a: V, b: V):
    """value that is a when c else b (c: z3 Bool); None if the two cannot be merged into one term"""
    if a is b:
        return a
    if isinstance(a, VNone) and isinstance(b, VNone):
        return NONE
    if isinstance(a, VBool) and isinstance(b, VBool):
        return VBool(t=z3.If(c, a.term(), b.term()))
    if isinstance(a, VInt) and isinstance(b, VInt):
        if a.c is not None and b.c is not None and a.c == b.c and a.enum is b.enum:
            return a
        lo = None if a.lo is None or b.lo is None else min(a.lo, b.lo)
        hi = None if a.hi is None or b.hi is None else max(a.hi, b.hi)
        enum = a.enum if a.enum is b.enum else None
        bt = it = None
        if (a.c is not None or a.b is not None) and (b.c is not None or b.b is not None) and lo is not None and hi is not None and -BIG <= lo and hi <= BIG:
            bt = z3.If(c, a.as_bv(), b.as_bv())
        if (a.c is not None or a.i is not None) and (b.c is not None or b.i is not None):
            it = z3.If(c, a.as_int(), b.as_int())
        if bt is None and it is None:
            it = z3.If(c, a.as_int(), b.as_int())
        return VInt(b=bt, i=it, lo=lo, hi=hi, enum=enum)
    if isinstance(a, VFloat) and isinstance(b, VFloat):
        return VFloat(t=z3.If(c, a.term(), b.term()))
    if isinstance(a, VStr) and isinstance(b, VStr):
        if a.c is not None and a.c == b.c:
            return a
        return VStr(t=z3.If(c, a.term(), b.term()))
    if isinstance(a, VRef) and isinstance(b, VRef) and a.ref == b.ref:
        return a
    return None


def union_of(alts):
    """alts: [(cond, V)] -> merged value (flattening nested unions, merging mergeable alternatives)"""
    flat = []
    for c, v in alts:
        if isinstance(v, VUnion):
            for c2, v2 in v.alts:
                flat.append((z3.simplify(z3.And(c, c2)), v2))
        else:
            flat.append((z3.simplify(c) if not isinstance(c, bool) else z3.BoolVal(c), v))
    flat = [(c, v) for c, v in flat if not z3.is_false(c)]
    if not flat:
        raise Unsupported("empty union")
    # merge alternatives of the same scalar type
    groups = []
    for c, v in flat:
        for g in groups:
            m = ite_value(c, v, g[1])
            if m is not None and (_same_scalar(v, g[1]) or m is v):
                g[0] = z3.simplify(z3.Or(g[0], c))
                g[1] = m
                break
        else:
            groups.append([c, v])
    if len(groups) == 1:
        return groups[0][1]
    return VUnion([(g[0], g[1]) for g in groups])


# ---------------------------------------------------------------------------------------------
# truthiness
# ---------------------------------------------------------------------------------------------

def truth(I, v) -> VBool:
    from .values import VAny
    if isinstance(v, VAny):
        return _any_pred(I, "truth", v)
    if isinstance(v, VBool):
        return v
    if isinstance(v, VNone):
        return FALSE
    if isinstance(v, VInt):
        if v.c is not None:
            return mkbool(v.c != 0)
        if v.b is not None:
            return VBool(t=v.b != 0)
        return VBool(t=v.i != 0)
    if isinstance(v, VFloat):
        if v.c is not None:
            return mkbool(v.c != 0)
        return VBool(t=v.t != 0)
    if isinstance(v, VStr):
        if v.c is not None:
            return mkbool(len(v.c) > 0)
        return VBool(t=I.str_nonempty(v))
    if isinstance(v, VBytes):
        n = v.length()
        if isinstance(n, int):
            return mkbool(n > 0)
        return VBool(t=n > 0)
    if isinstance(v, VTuple):
        return mkbool(len(v.items) > 0)
    if isinstance(v, VUnion):
        return VBool(t=z3.Or([z3.And(c, truth(I, a).term()) for c, a in v.alts]))
    if isinstance(v, VRef):
        return I.truth_ref(v)
    return TRUE


# ---------------------------------------------------------------------------------------------
# integer helpers
# ---------------------------------------------------------------------------------------------

def _to_intlike(I, v):
    """bool -> int; unions resolved by branching"""
    v = I.resolve(v)
    if isinstance(v, VBool):
        if v.c is not None:
            return mkint(int(v.c))
        return VInt(b=z3.If(v.t, z3.BitVecVal(1, W), z3.BitVecVal(0, W)), i=z3.If(v.t, z3.IntVal(1), z3.IntVal(0)), lo=0, hi=1)
    return v


def _has_b(v):
    return v.c is not None or v.b is not None


def _has_i(v):
    return v.c is not None or v.i is not None


def _arith(I, op, a: VInt, b: VInt):
    if a.c is not None and b.c is not None:
        return mkint({"+": a.c + b.c, "-": a.c - b.c, "*": a.c * b.c}[op])
    lo = hi = None
    if a.bounded() and b.bounded():
        if op == "+":
            lo, hi = a.lo + b.lo, a.hi + b.hi
        elif op == "-":
            lo, hi = a.lo - b.hi, a.hi - b.lo
        else:
            c = [a.lo * b.lo, a.lo * b.hi, a.hi * b.lo, a.hi * b.hi]
            lo, hi = min(c), max(c)
    fn = {"+": lambda x, y: x + y, "-": lambda x, y: x - y, "*": lambda x, y: x * y}[op]
    bt = it = None
    if _has_b(a) and _has_b(b) and lo is not None and -BIG <= lo and hi <= BIG:
        bt = fn(a.as_bv(), b.as_bv())
    if _has_i(a) and _has_i(b):
        it = fn(a.as_int(), b.as_int())
    if bt is None and it is None:
        it = fn(a.as_int(), b.as_int())
    return VInt(b=bt, i=it, lo=lo, hi=hi)


def _bits_hi(v):
    return (1 << max(v.hi, 0).bit_length()) - 1


def _bitop(I, op, a: VInt, b: VInt):
    if a.c is not None and b.c is not None:
        return mkint({"&": a.c & b.c, "|": a.c | b.c, "^": a.c ^ b.c}[op])
    if op == "|":
        for x, m in ((a, b), (b, a)):
            if x.c is None and x.b is None and x.lz and m.c is not None and 0 <= m.c < (1 << x.lz):
                # low bits of x are zero: or-ing a small constant is adding it
                return VInt(i=x.i + m.c, lo=(x.lo + m.c) if x.lo is not None else None, hi=(x.hi + m.c) if x.hi is not None else None)
    if op == "&":
        # x & (2^k - 1) on an unbounded integer is x mod 2^k
        for x, m in ((a, b), (b, a)):
            if m.c is not None and m.c >= 0 and is_pow2(m.c + 1) and not x.fits_bv() and x.c is None:
                return VInt(i=x.as_int() % (m.c + 1), lo=0, hi=m.c)
    for x in (a, b):
        if not x.fits_bv():
            raise Unsupported(f"bit operation {op} on an integer without 64-bit bounds")
    x, y = a.as_bv(), b.as_bv()
    if op == "&":
        t = x & y
        his = [v.hi for v in (a, b) if v.lo >= 0]
        if his:
            lo, hi = 0, min(his)
        else:
            lo, hi = -BIG, BIG
    else:
        t = (x | y) if op == "|" else (x ^ y)
        if a.lo >= 0 and b.lo >= 0:
            lo, hi = 0, max(_bits_hi(a), _bits_hi(b))
        else:
            lo, hi = -BIG, BIG
    return VInt(b=t, lo=lo, hi=hi)


def _shift(I, op, a: VInt, b: VInt):
    if a.c is not None and b.c is not None:
        if b.c < 0:
            I.raise_py("builtins.ValueError", "negative shift count")
        return mkint(a.c << b.c if op == "<<" else a.c >> b.c)
    if b.c is None:
        raise Unsupported("shift by a symbolic amount")
    k = b.c
    if k < 0:
        I.raise_py("builtins.ValueError", "negative shift count")
    if not a.fits_bv() and op == ">>" and a.lo is not None and a.lo >= 0 and a.hi is not None and a.hi < (1 << 64) and k < 64:
        # unsigned 64-bit value: logical shift of its (exact) 64-bit representation
        r = z3.LShR(a.as_bv(), k)
        if (a.hi >> k) <= BIG:
            return VInt(b=r, lo=a.lo >> k, hi=a.hi >> k)
        return VInt(i=z3.BV2Int(r, False), lo=a.lo >> k, hi=a.hi >> k)
    if not a.fits_bv():
        raise Unsupported("shift of an integer without 64-bit bounds")
    if op == "<<" and a.b is None and a.i is not None and a.lo is not None and a.lo >= 0:
        # Int-kind non-negative value: x << k = x * 2^k, kept in the integers
        return VInt(i=a.i * (1 << k), lo=a.lo << k, hi=(a.hi << k) if a.hi is not None else None, lz=k)
    if op == "<<":
        lo, hi = a.lo << k, a.hi << k
        if not (-BIG <= lo and hi <= BIG):
            raise Unsupported("left shift may exceed 64 bit")
        return VInt(b=a.as_bv() << k, lo=lo, hi=hi)
    return VInt(b=a.as_bv() >> k, lo=a.lo >> k, hi=a.hi >> k)     # arithmetic shift = floor


def _divmod(I, op, a: VInt, b: VInt):
    if b.c is None:
        raise Unsupported("division by a symbolic integer")
    if b.c == 0:
        I.raise_py("builtins.ZeroDivisionError", "division by zero")
    if a.c is not None:
        return mkint(a.c // b.c if op == "//" else a.c % b.c)
    if b.c < 0:
        raise Unsupported("division by a negative constant")
    d = b.c
    if op == "%":
        if is_pow2(d) and a.b is not None and a.i is None and a.fits_bv():
            return VInt(b=a.b & (d - 1), lo=0, hi=d - 1)
        return VInt(i=a.as_int() % d, lo=0, hi=d - 1)
    lo = None if a.lo is None else a.lo // d
    hi = None if a.hi is None else a.hi // d
    return VInt(i=a.as_int() / d, lo=lo, hi=hi)       # SMT div = floor for positive divisor


def to_real(I, v):
    v = _to_intlike(I, v)
    if isinstance(v, VFloat):
        return v.term()
    if isinstance(v, VInt):
        if v.c is not None:
            return z3.RealVal(v.c)
        return z3.ToReal(v.as_int())
    raise Unsupported(f"to_real of {v}")


def trunc_real(t):
    """int() of a real: truncation toward zero"""
    return z3.If(t >= 0, z3.ToInt(t), -z3.ToInt(-t))


def binop(I, op, a, b):
    o = {ast.Add: "+", ast.Sub: "-", ast.Mult: "*", ast.BitAnd: "&", ast.BitOr: "|", ast.BitXor: "^",
         ast.LShift: "<<", ast.RShift: ">>", ast.FloorDiv: "//", ast.Mod: "%", ast.Div: "/"}.get(type(op))
    if o is None:
        raise Unsupported(f"operator {op}")
    a, b = I.resolve(a), I.resolve(b)
    from .values import VAny as _VAny
    if isinstance(a, _VAny) or isinstance(b, _VAny):
        x = a if isinstance(a, _VAny) else b
        return I.any_child(x, o, b if x is a else a)
    # bytes
    if isinstance(a, VBytes):
        if o == "+" and isinstance(b, VBytes):
            if a.kind == "memoryview" or b.kind == "memoryview":
                I.raise_py("builtins.TypeError", "memoryview concatenation")
            return concat(a, b, a.kind)
        if o == "*" and isinstance(b, VInt) and b.c is not None and a.is_concrete():
            return VBytes.lit(a.concrete() * b.c, a.kind)
        if o == "*" and isinstance(b, VInt) and isinstance(a.length(), int) and a.length() == 1:
            # one byte repeated n times (n symbolic): a view of a constant array, empty for n <= 0
            from .values import View, Lit, _b8
            seg = a.segs[0]
            b0 = _b8(seg.bs[0]) if isinstance(seg, Lit) else z3.Select(seg.base, seg.off)
            n = b.as_int()
            return VBytes([View(z3.K(z3.IntSort(), b0), 0, z3.If(n > 0, n, 0))], a.kind)
        I.raise_py("builtins.TypeError", f"unsupported operand for bytes {o}")
    if isinstance(a, VStr):
        if o == "+" and isinstance(b, VStr):
            return I.str_concat(a, b)
        if o == "%":
            return I.opaque_str("fmt")
        I.raise_py("builtins.TypeError", "str operand")
    if isinstance(a, VRef) or isinstance(b, VRef):
        return I.binop_ref(o, a, b)
    if isinstance(a, VBool) and isinstance(b, VBool) and o in "&|^":
        x, y = a.term(), b.term()
        return VBool(t=z3.And(x, y) if o == "&" else z3.Or(x, y) if o == "|" else z3.Xor(x, y))
    if isinstance(a, (VNone, VTuple)) or isinstance(b, (VNone, VBytes, VStr, VTuple)):
        if isinstance(a, VTuple) and isinstance(b, VTuple) and o == "+":
            return VTuple(a.items + b.items)
        I.raise_py("builtins.TypeError", f"unsupported operand types for {o}")
    a, b = _to_intlike(I, a), _to_intlike(I, b)
    if isinstance(a, VFloat) or isinstance(b, VFloat) or o == "/":
        if o in "+-*":
            if getattr(a, "c", None) is not None and getattr(b, "c", None) is not None:
                return VFloat(c=float({"+": a.c + b.c, "-": a.c - b.c, "*": a.c * b.c}[o]))
            x, y = to_real(I, a), to_real(I, b)
            return VFloat(t={"+": x + y, "-": x - y, "*": x * y}[o])
        if o == "/":
            if isinstance(b, VInt) and b.c is not None or isinstance(b, VFloat) and b.c is not None:
                if b.c == 0:
                    I.raise_py("builtins.ZeroDivisionError", "division by zero")
                if getattr(a, "c", None) is not None:
                    return VFloat(c=a.c / b.c)
                return VFloat(t=to_real(I, a) / to_real(I, b))
            raise Unsupported("division by a symbolic value")
        raise Unsupported(f"float operator {o}")
    if not (isinstance(a, VInt) and isinstance(b, VInt)):
        raise Unsupported(f"binop {o} on {type(a).__name__}, {type(b).__name__}")
    if o in "+-*":
        return _arith(I, o, a, b)
    if o in "&|^":
        return _bitop(I, o, a, b)
    if o in ("<<", ">>"):
        return _shift(I, o, a, b)
    return _divmod(I, o, a, b)


def unop(I, op, a):
    a = I.resolve(a)
    if isinstance(op, ast.Not):
        t = truth(I, a)
        return mkbool(not t.c) if t.c is not None else VBool(t=z3.Not(t.t))
    a = _to_intlike(I, a)
    if isinstance(a, VFloat):
        if isinstance(op, ast.USub):
            return VFloat(c=-a.c) if a.c is not None else VFloat(t=-a.t)
        if isinstance(op, ast.UAdd):
            return a
    if isinstance(a, VInt):
        if isinstance(op, ast.USub):
            return _arith(I, "-", mkint(0), a)
        if isinstance(op, ast.UAdd):
            return a
        if isinstance(op, ast.Invert):
            if a.c is not None:
                return mkint(~a.c)
            if not a.fits_bv():
                raise Unsupported("~ on unbounded integer")
            return VInt(b=~a.as_bv(), lo=-a.hi - 1, hi=-a.lo - 1)
    I.raise_py("builtins.TypeError", "bad operand for unary operator")


# ---------------------------------------------------------------------------------------------
# comparison
# ---------------------------------------------------------------------------------------------

def int_cmp(o, a: VInt, b: VInt) -> VBool:
    if a.c is not None and b.c is not None:
        return mkbool({"==": a.c == b.c, "!=": a.c != b.c, "<": a.c < b.c, "<=": a.c <= b.c, ">": a.c > b.c, ">=": a.c >= b.c}[o])
    # interval shortcuts
    if a.bounded() and b.bounded():
        if a.hi < b.lo:
            return mkbool(o in ("<", "<=", "!="))
        if a.lo > b.hi:
            return mkbool(o in (">", ">=", "!="))
    if _has_b(a) and _has_b(b) and not (a.i is not None and b.i is not None):
        x, y = a.as_bv(), b.as_bv()
    else:
        x, y = a.as_int(), b.as_int()
    return VBool(t={"==": x == y, "!=": x != y, "<": x < y, "<=": x <= y, ">": x > y, ">=": x >= y}[o])


def bytes_eq(I, a: VBytes, b: VBytes):
    """z3 Bool: the two byte strings are equal"""
    if a.segs == b.segs or a.key() == b.key():
        return z3.BoolVal(True)
    la, lb = a.length(), b.length()
    for x, y, ly in ((a, b, lb), (b, a, la)):
        n = x.conc_len()
        if n is not None and n <= 4096:
            conj = [ly == n] if not isinstance(ly, int) else ([] if ly == n else [z3.BoolVal(False)])
            if isinstance(ly, int) and ly != n:
                return z3.BoolVal(False)
            for k in range(n):
                p, q = x.at(k), y.at(k)
                if p is not q:
                    conj.append(p == q)
            return z3.simplify(z3.And(conj)) if conj else z3.BoolVal(True)
    # both of symbolic length: segment-wise when aligned, extensional otherwise
    if (len(a.segs) == 1 and len(b.segs) == 1 and isinstance(a.segs[0], View) and isinstance(b.segs[0], View)
            and a.segs[0].base is b.segs[0].base):
        k = z3.Int(I.fresh("k"))
        ext = z3.ForAll([k], z3.Implies(z3.And(k >= 0, k < la), a.at(k) == b.at(k)))
        from .values import _iv as _ivv
        return z3.And(_ivv(la) == _ivv(lb), z3.Or(_ivv(la) <= 0, _ivv(a.segs[0].off) == _ivv(b.segs[0].off), ext))
    k = z3.Int(I.fresh("k"))
    ext = z3.ForAll([k], z3.Implies(z3.And(k >= 0, k < la), a.at(k) == b.at(k)))
    return z3.And(la == lb, ext)


def _any_pred(I, tag, a, b=None):
    from .values import VAny
    from . import builtins as B
    ka = ("any", tid(a.t)) if isinstance(a, VAny) else B.vkey(I, a)
    kb = None if b is None else (("any", tid(b.t)) if isinstance(b, VAny) else B.vkey(I, b))
    key = ("anypred", tag, ka, kb)
    if key not in I.path.memo:
        I.path.memo[key] = VBool(t=z3.Bool(I.fresh("any_" + tag)))
    return I.path.memo[key]


def _eq(I, a, b) -> VBool:
    """python == on resolved (non-union) values"""
    from .values import VAny
    if isinstance(a, VAny) or isinstance(b, VAny):
        return _any_pred(I, "eq", a, b)
    if isinstance(a, VNone) or isinstance(b, VNone):
        return mkbool(isinstance(a, VNone) and isinstance(b, VNone))
    if isinstance(a, VBytes) and isinstance(b, VBytes):
        return VBool(t=bytes_eq(I, a, b))
    if isinstance(a, VStr) and isinstance(b, VStr):
        if a.c is not None and b.c is not None:
            return mkbool(a.c == b.c)
        return VBool(t=I.str_term(a) == I.str_term(b))
    if isinstance(a, VTuple) and isinstance(b, VTuple):
        if len(a.items) != len(b.items):
            return FALSE
        r = [eq_values(I, x, y).term() for x, y in zip(a.items, b.items)]
        return VBool(t=z3.And(r)) if r else TRUE
    if isinstance(a, VFloat) or isinstance(b, VFloat):
        if isinstance(a, (VInt, VFloat, VBool)) and isinstance(b, (VInt, VFloat, VBool)):
            return VBool(t=to_real(I, a) == to_real(I, b))
        return FALSE
    if isinstance(a, (VInt, VBool)) and isinstance(b, (VInt, VBool)):
        if isinstance(a, VBool) and isinstance(b, VBool):
            return VBool(t=a.term() == b.term())
        return int_cmp("==", _to_intlike(I, a), _to_intlike(I, b))
    if isinstance(a, VRef) and isinstance(b, VRef):
        return I.eq_ref(a, b)
    for x, y in ((a, b), (b, a)):
        if isinstance(x, VRef) and I.hobj(x).kind == "ext" and I.hobj(x).meta.get("tag") == "json":
            from . import libmodels
            return libmodels.eq_ext_value(I, x, y)
    if type(a) is type(b) and not isinstance(a, (VRef,)):
        return mkbool(a is b)
    return FALSE


def eq_values(I, a, b) -> VBool:
    if isinstance(a, VUnion):
        return VBool(t=z3.Or([z3.And(c, eq_values(I, v, b).term()) for c, v in a.alts]))
    if isinstance(b, VUnion):
        return VBool(t=z3.Or([z3.And(c, eq_values(I, a, v).term()) for c, v in b.alts]))
    return _eq(I, a, b)


def is_values(I, a, b) -> VBool:
    """python `is` (only meaningful for None, bools, classes, references)"""
    if isinstance(a, VUnion):
        return VBool(t=z3.Or([z3.And(c, is_values(I, v, b).term()) for c, v in a.alts]))
    if isinstance(b, VUnion):
        return VBool(t=z3.Or([z3.And(c, is_values(I, a, v).term()) for c, v in b.alts]))
    from .values import VAny
    if isinstance(a, VAny) or isinstance(b, VAny):
        return _any_pred(I, "is", a, b)
    if isinstance(a, VNone) or isinstance(b, VNone):
        return mkbool(isinstance(a, VNone) and isinstance(b, VNone))
    if isinstance(a, VRef) and isinstance(b, VRef):
        return mkbool(a.ref == b.ref)
    if isinstance(a, VBool) and isinstance(b, VBool):
        return VBool(t=a.term() == b.term())
    if isinstance(a, (VInt, VFloat, VStr, VBytes, VTuple, VBool)) or isinstance(b, (VInt, VFloat, VStr, VBytes, VTuple, VBool)):
        if type(a) is not type(b):
            return FALSE
        if a is b:
            return TRUE
        # identity of two immutable values: implies equality; otherwise it depends on object identity, which the value model does
        # not track (the same name bound twice is caught above): an uninterpreted Boolean that implies equality
        from . import builtins as B
        try:
            t = B.opaque_bool(I, "is_same_object", [a, b])
            I.path.assume(z3.Implies(t.term(), eq_values(I, a, b).term()))
            I.path.assumption("`is` between two immutable values (bytes / str / int): identity implies equality; beyond that it is an uninterpreted Boolean")
            return t
        except Unsupported:
            raise Unsupported("`is` on value types")
    return mkbool(a is b)


def compare(I, op, a, b) -> VBool:
    if isinstance(op, ast.Is):
        return is_values(I, a, b)
    if isinstance(op, ast.IsNot):
        r = is_values(I, a, b)
        return mkbool(not r.c) if r.c is not None else VBool(t=z3.Not(r.t))
    if isinstance(op, ast.Eq):
        return eq_values(I, a, b)
    if isinstance(op, ast.NotEq):
        r = eq_values(I, a, b)
        return mkbool(not r.c) if r.c is not None else VBool(t=z3.Not(r.t))
    if isinstance(op, (ast.In, ast.NotIn)):
        r = I.contains(b, a)
        if isinstance(op, ast.NotIn):
            r = mkbool(not r.c) if r.c is not None else VBool(t=z3.Not(r.t))
        return r
    o = {ast.Lt: "<", ast.LtE: "<=", ast.Gt: ">", ast.GtE: ">="}[type(op)]
    from .values import VAny as _VAny
    if isinstance(a, _VAny) or isinstance(b, _VAny):
        return _any_pred(I, o, a, b)
    if isinstance(a, VUnion) or isinstance(b, VUnion):
        aa = a.alts if isinstance(a, VUnion) else [(z3.BoolVal(True), a)]
        bb = b.alts if isinstance(b, VUnion) else [(z3.BoolVal(True), b)]
        if all(isinstance(v, (VInt, VFloat, VBool)) for _, v in aa + bb):
            terms = []
            for ca, va in aa:
                for cb, vb in bb:
                    terms.append(z3.And(ca, cb, compare(I, op, va, vb).term()))
            return VBool(t=z3.Or(terms))
    a, b = I.resolve(a), I.resolve(b)
    if isinstance(a, VRef) or isinstance(b, VRef):
        return I.order_ref(o, a, b)
    if isinstance(a, (VNone, VStr, VBytes, VTuple)) or isinstance(b, (VNone, VStr, VBytes, VTuple)):
        if isinstance(a, VStr) and isinstance(b, VStr) and a.c is not None and b.c is not None:
            return mkbool({"<": a.c < b.c, "<=": a.c <= b.c, ">": a.c > b.c, ">=": a.c >= b.c}[o])
        if isinstance(a, VNone) or isinstance(b, VNone):
            I.raise_py("builtins.TypeError", "ordering comparison with None")
        raise Unsupported("ordering of non-numeric values")
    a, b = _to_intlike(I, a), _to_intlike(I, b)
    if not isinstance(a, (VInt, VFloat, VBool)) or not isinstance(b, (VInt, VFloat, VBool)):
        raise Unsupported(f"ordering comparison of {type(a).__name__} and {type(b).__name__}")
    if isinstance(a, VFloat) or isinstance(b, VFloat):
        if getattr(a, "c", None) is not None and getattr(b, "c", None) is not None:
            return mkbool({"<": a.c < b.c, "<=": a.c <= b.c, ">": a.c > b.c, ">=": a.c >= b.c}[o])
        x, y = to_real(I, a), to_real(I, b)
        return VBool(t={"<": x < y, "<=": x <= y, ">": x > y, ">=": x >= y}[o])
    return int_cmp(o, a, b)
