"""Per-property check:  python3-vt -m pyvc.prop <ID> [--tier quick|thorough]

exit 0  every obligation generated from /repo's current source was discharged
exit 1  VIOLATION property=<id> replay=<path> [no-failing-input-found]
exit 2  undecided (construct outside the subset, solver timeout) - never reported as a violation
exit 3  engine failure / vacuous contract
"""
from __future__ import annotations

import argparse
import concurrent.futures as cf
import hashlib
import json
import os
import re
import subprocess
import sys
import time
import traceback

HERE = os.path.dirname(os.path.dirname(os.path.abspath(__file__)))
REPO = os.environ.get("PYVC_REPO", "/repo")
VENV_PY = "/venv/bin/python"


def load_props():
    ns = {}
    with open(os.path.join(HERE, "props.py")) as f:
        exec(compile(f.read(), "props.py", "exec"), ns)
    return ns["PROPS"], ns.get("COMMON_ASSUMPTIONS", [])


_TREE_HASH = {}


def tree_hash():
    """content hash of everything a verdict depends on: the repository sources, the sidecar contracts, the engine"""
    if "h" not in _TREE_HASH:
        h = hashlib.sha256()
        roots = [(os.path.join(REPO, "msmart"), True), (os.path.join(HERE, "contracts"), False), (os.path.join(HERE, "pyvc"), False)]
        for root, skip_tests in roots:
            for dp, dn, fn in sorted(os.walk(root)):
                dn.sort()
                if skip_tests and os.path.basename(dp) == "tests":
                    continue
                for f in sorted(fn):
                    if not f.endswith(".py") or (skip_tests and f.startswith("test_")):
                        continue
                    fp = os.path.join(dp, f)
                    h.update(os.path.relpath(fp, root).encode())
                    h.update(b"\0")
                    with open(fp, "rb") as fh:
                        h.update(fh.read())
                    h.update(b"\0")
        h.update(z3_version().encode())
        _TREE_HASH["h"] = h.hexdigest()
    return _TREE_HASH["h"]


def prune_cache(max_bytes=400 << 20):
    """keep the result cache small: entries of other trees are dead weight (oldest first)"""
    cdir = os.path.join(HERE, ".work", "cache")
    try:
        ents = [(e.stat().st_mtime, e.stat().st_size, e.path) for e in os.scandir(cdir) if e.is_file()]
    except OSError:
        return
    total = sum(sz for _, sz, _ in ents)
    for _, sz, path in sorted(ents):
        if total <= max_bytes:
            break
        try:
            os.remove(path)
            total -= sz
        except OSError:
            pass


def z3_version():
    import z3
    return z3.get_version_string()


def worker(args):
    """verify one target; the result is stored under the content hash of (sources, contracts, engine, target, budgets), so the
    same verification problem is solved once per working tree even when several property checks need it (PYVC_NO_CACHE=1 disables)"""
    target, timeout_ms, want_smt2 = args
    use_cache = os.environ.get("PYVC_NO_CACHE", "0") != "1"
    cfile = None
    if use_cache:
        key = hashlib.sha256(json.dumps([tree_hash(), target, timeout_ms, bool(want_smt2), os.environ.get("PYVC_TARGET_BUDGET_S", ""),
                                         os.environ.get("PYTHONHASHSEED", "")]).encode()).hexdigest()
        cdir = os.path.join(HERE, ".work", "cache")
        cfile = os.path.join(cdir, key + ".json")
        if os.path.exists(cfile):
            try:
                with open(cfile) as fh:
                    out = json.load(fh)
                out["cached"] = True
                return out
            except Exception:       # noqa  (a torn file: recompute)
                pass
    out = worker_compute(args)
    if cfile is not None and not out.get("error"):
        try:
            os.makedirs(os.path.dirname(cfile), exist_ok=True)
            tmp = cfile + f".{os.getpid()}.tmp"
            with open(tmp, "w") as fh:
                json.dump(out, fh)
            os.replace(tmp, cfile)
        except Exception:       # noqa
            pass
    return out


def worker_compute(args):
    """verify one target in a fresh process; returns plain data"""
    target, timeout_ms, want_smt2 = args
    import z3
    from . import check as chk
    from .concretize import conc
    from .contracts import ContractSet
    from .interp import Interp
    from .loader import Loader
    from .path import Explorer, discharge
    from .values import Unsupported
    t0 = time.time()
    out = {"target": target, "obligations": [], "paths": 0, "outcomes": {}, "undecided": None, "assumptions": [],
           "covers_sat": 0, "covers": 0, "secs": 0.0, "error": None}
    try:
        L = Loader(REPO)
        cs = ContractSet(L, os.path.join(HERE, "contracts"))
        c = cs.contracts.get(target) or cs.lemmas.get(target)
        if c is None:
            out["error"] = f"no contract named {target}"
            return out
        out["sidecar"] = c.module.name
        out["contract"] = contract_data(c)
        out["kind"] = c.kind
        I = Interp(L, cs)
        I.spec_builtins = {"fold", "implies", "old", "pre", "events", "same_object", "final", "byte_at", "forall", "maybe", "has_own", "pending_getters", "hexbytes", "conforms", "is_xml", "md5", "sha256", "aes_ecb_enc", "aes_ecb_dec", "aes_cbc_enc", "aes_cbc_dec", "pkcs7", "xor_bytes"}
        ex = Explorer()
        import signal

        class _Budget(Exception):
            pass

        def _alarm(signum, frame):
            raise _Budget()
        budget = int(os.environ.get("PYVC_TARGET_BUDGET_S", "0") or 0) or (7200 if want_smt2 else 3600)
        signal.signal(signal.SIGALRM, _alarm)
        signal.alarm(budget)
        try:
            paths = ex.run(lambda p: cs.verify_path(I, c, p))
        except Unsupported as e:
            signal.alarm(0)
            out["undecided"] = f"outside the supported subset: {e}"
            out["secs"] = time.time() - t0
            return out
        except _Budget:
            out["undecided"] = f"path exploration exceeded the budget of {budget} s for one function (no verdict)"
            out["secs"] = time.time() - t0
            return out
        finally:
            signal.alarm(0)
        out["paths"] = len(paths)
        asm = set()
        for p in paths:
            oc = p.ghost.get("outcome", "cut")
            out["outcomes"][oc] = out["outcomes"].get(oc, 0) + 1
            asm |= p.assumptions
            # reachability cover of every completed path (vacuity guard)
            if oc not in ("cut", "unsupported"):
                s = z3.Solver()
                s.set("timeout", 120000)
                for t in p.pc:
                    s.add(t)
                out["covers"] += 1
                if s.check() == z3.sat:
                    out["covers_sat"] += 1
                    if oc == "return":
                        out["return_sat"] = out.get("return_sat", 0) + 1
            for ob in p.obligations:
                sample = (not want_smt2) and not out.get("_sampled") and not ob.info.get("trivial")
                discharge(ob, timeout_ms, want_smt2 or sample)
                if sample and ob.status == "proved":
                    out["_sampled"] = True
                    out["sample_smt2"] = {"obligation": ob.name, "smt2": (ob.smt2 or "")[:3000]}
                if p.ghost.get("overapprox"):
                    ob.info["overapprox"] = p.ghost["overapprox"]
                rec = {"name": ob.name, "status": ob.status, "secs": round(ob.secs, 4), "clause": ob.info.get("clause"),
                       "path": ob.info.get("path"), "backend": ob.backend, "info": {k: v for k, v in ob.info.items() if k in ("line", "unexpected_exception", "callee", "spec_raised", "trivial", "overapprox")}}
                if ob.status == "refuted":
                    try:
                        inputs = {k: conc(I, ob.model, v, p.heap) for k, v in p.ghost.get("inputs", p.ghost.get("entry_locals", {})).items()
                                  if not k.startswith("_")}
                        if c.kind == "lemma":
                            inputs = {k: conc(I, ob.model, v, p.heap) for k, v in p.ghost.get("entry_locals", {}).items() if k in c.params}
                        globs = {}
                        for (cq, attr), v in p.ghost.get("init_globals", {}).items():
                            globs[f"{cq}.{attr}"] = conc(I, ob.model, v, p.heap)
                        rec["inputs"] = inputs
                        rec["globals"] = globs
                    except Exception as e:      # noqa
                        rec["inputs_error"] = f"{type(e).__name__}: {e}"
                if ob.status != "proved":
                    rec["smt2"] = ob.smt2 if ob.smt2 is not None else None
                    rec["model"] = str(ob.model)[:4000] if ob.model is not None else None
                elif want_smt2:
                    rec["smt2"] = ob.smt2
                out["obligations"].append(rec)
        if ex.unsupported:
            if any(o["status"] == "refuted" for o in out["obligations"]):
                out["partial"] = f"some paths are outside the supported subset ({ex.unsupported[0]}); the obligations refuted on the other paths stand"
            else:
                out["undecided"] = f"outside the supported subset: {ex.unsupported[0]}"
        out["assumptions"] = sorted(asm)
        out["callees"] = sorted(cs.used)
        out["assumed_callees"] = {n: cs.contracts[n].assumed for n in cs.used if n in cs.contracts and cs.contracts[n].assumed}
        out["callees"] = sorted(set(out["callees"]) | {v for n in out["assumed_callees"] for v in cs.contracts[n].verified_by})
        out["stats"] = dict(ex.stats)
        if c.kind != "lemma" and not c.noreturn and not out.get("return_sat") and not out["undecided"] and not ex.unsupported:
            out["vacuity"] = (f"no satisfiable normal-return path in {target}: every clause about the normal result is vacuous "
                            "(contradictory pre-condition or callee contract?); a contract for inputs that never return is marked noreturn=True")
        dead = sorted(k for k, (n, ok) in ex.stats.get("callret", {}).items() if n > 0 and ok == 0)
        if dead and not out["undecided"]:
            out["vacuity"] = (out.get("vacuity", "") + "; " if out.get("vacuity") else "") + ("vacuous call sites: the normal return of " + ", ".join(dead) + f" is infeasible at every call site in {target} "
                            "(the callee's contract contradicts the caller's state; every path through the call was cut)")
    except Exception as e:      # noqa
        out["error"] = f"{type(e).__name__}: {e}\n{traceback.format_exc()[-1500:]}"
    out["secs"] = round(time.time() - t0, 3)
    return out


def contract_data(c):
    return {"params": c.params, "globals": c.globals, "requires": c.requires, "returns": c.returns, "ensures": c.ensures,
            "raises": c.raises, "modifies": c.modifies, "assigns": c.assigns, "let": c.lets, "post_let": c.post_lets,
            "bind": c.bind, "bind_kwargs": c.bind_kwargs, "bind_varargs": c.bind_varargs}


def cvc5_check(smt2, timeout_s):
    """second opinion on one obligation; returns 'unsat' | 'sat' | 'unknown'"""
    txt = smt2.replace("ubv_to_int", "bv2nat")
    txt = re.sub(r"\(\(_ int_to_bv (\d+)\)", r"((_ int2bv \1)", txt)
    txt = re.sub(r"\(\(_ int2bv (\d+)\)", r"((_ int2bv \1)", txt)
    if "(check-sat)" not in txt:
        txt += "\n(check-sat)\n"
    txt = "(set-logic ALL)\n" + txt
    try:
        r = subprocess.run(["/usr/bin/cvc5", "--lang=smt2", f"--tlimit={int(timeout_s * 1000)}", "-"], input=txt, capture_output=True, text=True, timeout=timeout_s + 5)
    except subprocess.TimeoutExpired:
        return "unknown"
    o = r.stdout.strip().splitlines()
    return o[0] if o and o[0] in ("sat", "unsat", "unknown") else "unknown"


def replay(pid, res, ob):
    """write the replay file for a refuted obligation and run it on the real code"""
    d = os.path.join(HERE, "replay", pid) if "PYVC_REPO" not in os.environ else os.path.join(HERE, ".work", "replay_scratch", pid)
    os.makedirs(d, exist_ok=True)
    safe = re.sub(r"[^A-Za-z0-9_.-]", "_", ob["name"])[:150]
    path = os.path.join(d, safe + ".json")
    spec = {"property": pid, "target": res["target"], "obligation": ob["name"], "clause": ob.get("clause"), "kind": res.get("kind"),
            "sidecar": res.get("sidecar"), "contract": res.get("contract"), "inputs": ob.get("inputs", {}), "globals": ob.get("globals", {}),
            "solver": {"backend": ob.get("backend"), "status": ob["status"], "model": ob.get("model"), "smt2": (ob.get("smt2") or "")[:200000]},
            "info": ob.get("info")}
    with open(path, "w") as f:
        json.dump(spec, f, indent=1)
    confirmed, outtxt = False, ""
    if ob.get("inputs") is not None and "inputs_error" not in ob:
        env = dict(os.environ)
        env["PYTHONPATH"] = HERE + os.pathsep + REPO
        try:
            r = subprocess.run([VENV_PY, "-m", "pyvc.replay", path], capture_output=True, text=True, timeout=900, env=env, cwd=HERE)
            outtxt = (r.stdout + r.stderr)[-3000:]
            confirmed = r.returncode == 0
        except subprocess.TimeoutExpired:
            outtxt = "replay timed out"
    spec["native_replay"] = {"confirmed": confirmed, "output": outtxt}
    with open(path, "w") as f:
        json.dump(spec, f, indent=1)
    return path, confirmed, outtxt


def known_findings():
    p = os.path.join(HERE, "known_findings.json")
    if not os.path.exists(p):
        return []
    return json.load(open(p)).get("findings", [])


def main(argv=None):
    ap = argparse.ArgumentParser()
    ap.add_argument("pid")
    ap.add_argument("--tier", default=os.environ.get("VERIF_TIER", "quick"))
    ap.add_argument("--jobs", type=int, default=min(16, os.cpu_count() or 4))
    ap.add_argument("-v", action="store_true")
    a = ap.parse_args(argv)
    seed = int(os.environ.get("VERIF_SEED", "0") or 0)
    t0 = time.time()
    prune_cache()
    PROPS, COMMON = load_props()
    if a.pid not in PROPS:
        print(f"unknown property {a.pid}")
        return 3
    P = PROPS[a.pid]
    thorough = a.tier == "thorough"
    # wall-clock budgets are sized for a machine whose 16 cores are shared with other checks (slowest obligation alone: ~11 s)
    timeout_ms = 1200000 if thorough else 600000
    filters = {}
    targets = []
    for t in P["targets"]:
        if isinstance(t, (tuple, list)):
            filters[t[0]] = re.compile(t[1])
            targets.append(t[0])
        else:
            targets.append(t)
    results = []
    listed = list(targets)
    with cf.ProcessPoolExecutor(max_workers=a.jobs) as ex:
        todo = list(targets)
        seen = set(targets)
        rounds = 0
        while todo and rounds < 6:
            rounds += 1
            batch = list(ex.map(worker, [(t, timeout_ms, thorough) for t in todo]))
            results.extend(batch)
            # modular closure: a callee used by its contract is verified against its own body in the same run, so a change
            # inside a callee fails here and not only under the property that lists the callee
            todo = []
            for r in batch:
                for cname in r.get("callees", []):
                    if cname in r.get("assumed_callees", {}):
                        continue
                    if cname not in seen:
                        seen.add(cname)
                        todo.append(cname)
        targets = [r["target"] for r in results]
    unverifiable = {"no contract named"}
    for r in results:
        if r["target"] not in listed and r.get("undecided") and "is not a function" in str(r.get("undecided")):
            r["undecided"] = None
    for r in results:
        f = filters.get(r["target"])
        if f is not None:
            r["obligations"] = [ob for ob in r["obligations"] if f.search(ob["name"])]
    # second solver (thorough): every obligation must also be unsat for cvc5, or cvc5 may give up (unknown)
    disagreements = []
    cvc5_n = {"unsat": 0, "unknown": 0, "sat": 0}
    if thorough:
        jobs = []
        for r in results:
            for ob in r["obligations"]:
                if ob["status"] == "proved" and ob.get("smt2"):
                    jobs.append((r, ob))
        with cf.ThreadPoolExecutor(max_workers=a.jobs) as tp:
            for (r, ob), ans in zip(jobs, tp.map(lambda j: cvc5_check(j[1]["smt2"], 30), jobs)):
                cvc5_n[ans] += 1
                ob["cvc5"] = ans
                if ans == "sat":
                    disagreements.append(ob["name"])
        for r in results:
            for ob in r["obligations"]:
                if ob["status"] == "proved":
                    ob.pop("smt2", None)
    canary = {"run": 0, "killed": 0, "survived": []}
    xcheck_txt = None
    if thorough and "PYVC_REPO" not in os.environ:
        # (1) CPython cross-check of the interpreter (bounded, engine self-test)
        try:
            xr = subprocess.run([sys.executable, "-m", "pyvc.xcheck", "--n", "60"], capture_output=True, text=True, timeout=900, cwd=HERE)
            xcheck_txt = (xr.stdout.strip().splitlines() or ["?"])[-1]
            if xr.returncode != 0:
                engine_err_pre = [f"CPython cross-check of the interpreter failed: {xcheck_txt}"]
            else:
                engine_err_pre = []
        except subprocess.TimeoutExpired:
            engine_err_pre = ["CPython cross-check timed out"]
        # (2) canaries: seeded changes recorded as detected for this property must still be detected
        resf = os.path.join(HERE, "seeded", "RESULTS.json")
        seeded = json.load(open(resf)) if os.path.exists(resf) else {}
        names = [name for name, r in sorted(seeded.items()) if name.startswith(a.pid + "_") and r.get("verdict") == "detected"]

        def one_canary(name):
            wt = f"/tmp/pyvc_canary_{os.getpid()}_{name}"
            try:
                subprocess.run(["git", "-C", "/repo", "worktree", "add", "-q", "--detach", wt, "HEAD"], check=True, capture_output=True)
                ap_ = subprocess.run(["git", "apply", "--3way", os.path.join(HERE, "seeded", name, "patch.diff")], cwd=wt, capture_output=True)
                if ap_.returncode != 0:
                    return name, None
                env = dict(os.environ)
                env["PYVC_REPO"] = wt
                cr = subprocess.run([sys.executable, "-m", "pyvc.prop", a.pid, "--tier", "quick", "--jobs", "4"], capture_output=True, text=True, env=env, cwd=HERE, timeout=14400)
                return name, "VIOLATION property=" in cr.stdout
            except Exception:       # noqa
                return name, None
            finally:
                subprocess.run(["git", "-C", "/repo", "worktree", "remove", "--force", wt], capture_output=True)
        with cf.ThreadPoolExecutor(max_workers=4) as tp:
            for name, killed in tp.map(one_canary, names):
                if killed is None:
                    continue
                canary["run"] += 1
                if killed:
                    canary["killed"] += 1
                else:
                    canary["survived"].append(name)
    else:
        engine_err_pre = []
    rc = 0
    lines = []
    n_obl = n_dis = 0
    violations = []
    undecided = []
    engine_err = []
    samples = []
    funcs = []
    asm = set(COMMON) | set(P.get("assumptions", []))
    kf = [k for k in known_findings() if k.get("property") == a.pid and k.get("status", "open") == "open"]
    kf_hit = set()
    kf_obl = set()
    for r in results:
        if r["error"]:
            engine_err.append(f"{r['target']}: {r['error']}")
            continue
        if r["undecided"]:
            undecided.append(f"{r['target']}: {r['undecided']}")
            continue
        if r.get("partial"):
            lines.append(f"NOTE {r['target']}: {r['partial']}")
        if r.get("vacuity"):
            # a contract that is vacuous on the unchanged tree is an engine error; a change that makes the normal path of a function
            # disappear is reported through the obligations it refutes (and only as an engine error when it refutes none)
            if any(ob["status"] == "refuted" for ob in r["obligations"]):
                lines.append(f"NOTE {r['target']}: {r['vacuity']}")
            else:
                engine_err.append(f"{r['target']}: {r['vacuity']}")
        funcs.append({"target": r["target"], "paths": r["paths"], "outcomes": r["outcomes"], "obligations": len(r["obligations"]),
                      "secs": r["secs"], "covers_sat": r["covers_sat"], "from_cache": bool(r.get("cached"))})
        asm |= set(r["assumptions"])
        if not r["obligations"]:
            engine_err.append(f"{r['target']}: zero obligations generated (vacuous)")
        if r["covers"] and not r["covers_sat"]:
            engine_err.append(f"{r['target']}: no completed path is satisfiable (contradictory pre-condition?)")
        for ob in r["obligations"]:
            n_obl += 1
            if ob["status"] == "proved":
                n_dis += 1
                if len(samples) < 6 and not ob["info"].get("trivial"):
                    sm = {"obligation": ob["name"], "clause": ob["clause"], "backend": ob["backend"], "secs": ob["secs"]}
                    if r.get("sample_smt2") and r["sample_smt2"]["obligation"] == ob["name"]:
                        sm["smt2_head"] = r["sample_smt2"]["smt2"][:1500]
                    samples.append(sm)
            elif ob["status"] == "refuted":
                violations.append((r, ob))
            else:
                undecided.append(f"{ob['name']}: solver gave no answer within {timeout_ms} ms")
    # callee contracts used at call sites: verified in this run, verified by the check of another property, or assumed
    mine = {(t[0] if isinstance(t, (tuple, list)) else t) for t in targets}
    elsewhere = {}
    for pid_, d_ in load_props()[0].items():
        for t in d_["targets"]:
            elsewhere.setdefault(t[0] if isinstance(t, (tuple, list)) else t, []).append(pid_)
    callees = {}
    for r in results:
        for cname in r.get("callees", []):
            if cname in mine:
                callees[cname] = "verified in this run"
            elif cname in elsewhere:
                callees[cname] = "verified by the check of " + ", ".join(sorted(set(elsewhere[cname])))
            else:
                variants = sorted(t for t in elsewhere if t.split("#")[0] == cname.split("#")[0])
                why = r.get("assumed_callees", {}).get(cname)
                callees[cname] = "ASSUMED at call sites: this contract is never verified against the body" + (f" [{why}]" if why else "") + \
                    (f" (other contracts of the same function are: {', '.join(variants)})" if variants else "")
                asm.add(f"assumed contract of a callee: {cname} (used at call sites, not verified against its body)")
    for name in disagreements:
        engine_err.append(f"solver disagreement on {name}: z3 unsat, cvc5 sat")
    engine_err.extend(engine_err_pre)
    for name in canary["survived"]:
        engine_err.append(f"canary {name} (a seeded change known to break {a.pid}) is no longer detected")
    # report
    seen = set()
    nviol = 0
    violations.sort(key=lambda ro: 1 if ro[1]["info"].get("overapprox") else 0)      # exact refutations of an obligation first
    for r, ob in violations:
        if ob["name"] in seen:
            continue
        seen.add(ob["name"])
        path, confirmed, outtxt = replay(a.pid, r, ob)
        if not confirmed and ob["info"].get("overapprox"):
            # refuted only on a path that went through a sound over-approximation: not a verdict about the code
            undecided.append(f"{ob['name']}: refuted only under an over-approximation ({ob['info']['overapprox']}); the native replay did not confirm it")
            continue
        hit = None
        for k in kf:
            if k.get("obligation") == ob["name"] or (k.get("obligation_prefix") and ob["name"].startswith(k["obligation_prefix"])):
                if k.get("line") and str(k["line"]) not in str(ob["info"].get("line")):
                    continue
                hit = k
                break
        if hit is not None:
            kf_hit.add(hit["id"])
            kf_obl.add(ob["name"])
            continue
        nviol += 1
        rel = os.path.relpath(path, HERE)
        tail = "" if confirmed else " no-failing-input-found"
        lines.append(f"VIOLATION property={a.pid} replay={rel}{tail}")
        lines.append(f"  failed obligation: {ob['name']}   [{ob.get('clause')}]  ({'replayed on the real code' if confirmed else 'solver counter-model; native replay did not confirm'})")
        if a.v and outtxt:
            lines.append("  " + outtxt.replace("\n", "\n  "))
    for k in kf:
        if k["id"] in kf_hit:
            lines.append(f"KNOWN-FINDING: property={a.pid} {k['what']}")
    if engine_err:
        rc = 3
    elif nviol:
        rc = 1
    elif undecided:
        rc = 2
    for e in engine_err:
        lines.append("ENGINE-ERROR " + e)
    for u in undecided:
        lines.append("UNDECIDED " + u)
    wall = round(time.time() - t0, 2)
    level = P.get("level", "proof")
    ev = {
        "property_id": a.pid, "tier": a.tier, "seed": seed, "level": level,
        "coverage": {
            "obligations": n_obl - sum(1 for r in results for ob in r["obligations"] if ob["name"] in kf_obl), "discharged": n_dis,
            "known_finding_obligations": sorted(kf_obl),
            "checker_cmd": f"python3-vt -m pyvc.prop {a.pid} --tier {a.tier}",
            "trusted_base": sorted(asm),
            "functions_under_contract": funcs,
            "samples": samples or [{"note": "no discharged obligation"}],
            "backends": {"z3": "z3-solver 5.1.0 (python API), one query per obligation", **({"cvc5_second_opinion": cvc5_n} if thorough else {})},
            "solver_time_s": round(sum(ob["secs"] for r in results for ob in r["obligations"]), 2),
            "result_cache": (f"{sum(1 for r in results if r.get('cached'))} of {len(results)} targets were taken from the content-addressed result cache of this working tree "
                             "(.work/cache: key = hash of the repository sources, the sidecar contracts, the engine, the solver version, the target and its budgets; "
                             "a hit is the stored result of exactly this verification problem, computed earlier by another property's check; PYVC_NO_CACHE=1 recomputes)"),
            "undecided": undecided, "engine_errors": engine_err,
            "bounded_standins": P.get("bounded", []) + ([f"CPython cross-check of the interpreter on concrete inputs (bounded, engine self-test): {xcheck_txt}"] if xcheck_txt else []),
            "canaries": canary,
            "callee_contracts": dict(sorted(callees.items())),
            "known_findings_printed": sorted(kf_hit),
            "evaluations": n_obl, "distinct_nontrivial": len({ob["name"] for r in results for ob in r["obligations"] if not ob["info"].get("trivial")}),
            "rule": "one evaluation = one verification condition (path x clause); distinct = distinct obligation names that are not trivially true",
            "explanation": P.get("explanation", ""),
        },
        "assumptions": sorted(asm),
        "wall_s": wall,
        "violations": nviol,
    }
    evdir = os.path.join(HERE, "evidence") if "PYVC_REPO" not in os.environ else os.path.join(HERE, ".work", "evidence_scratch")
    os.makedirs(evdir, exist_ok=True)
    with open(os.path.join(evdir, f"{a.pid}.json"), "w") as f:
        json.dump(ev, f, indent=1)
    print(f"[{a.pid}] tier={a.tier} targets={len(targets)} obligations={n_obl} discharged={n_dis} violations={nviol} undecided={len(undecided)} wall={wall}s")
    for r in results:
        if a.v:
            print(f"   {r['target']}: paths={r['paths']} {r['outcomes']} obligations={len(r['obligations'])} secs={r['secs']}")
    for ln in lines:
        print(ln)
    return rc


if __name__ == "__main__":
    if os.environ.get("PYTHONHASHSEED") != "0":
        # reproducible runs: set/dict iteration order of strings must not depend on the process
        os.environ["PYTHONHASHSEED"] = "0"
        os.execv(sys.executable, [sys.executable, "-m", "pyvc.prop"] + sys.argv[1:])
    sys.exit(main())
