"""Models of builtins and of the library functions the repository uses.

Everything here is part of the trusted base (assumed contracts on dependencies, DESIGN.md 3.4).
"""
from __future__ import annotations

import ast

import z3

from . import ops
from .loader import ClassInfo, ExtModule, builtin_class, has_builtin_class
from .values import (tid, ARR, BV8, FALSE, Guarded, INT, MAXLEN, NONE, TRUE, W, HObj, Lit, Unsupported, V, VBool,
                     VBytes, VFloat, VInt, VNone, VRef, VStr, VTuple, VUnion, View, as_const, byte_val,
                     concat, fresh, iadd, isub, mkbool, mkint, _iv)

BUILTIN_EXC = ["BaseException", "Exception", "AssertionError", "AttributeError", "IndexError", "KeyError", "LookupError",
               "OSError", "IOError", "TimeoutError", "ConnectionError", "ConnectionRefusedError", "ConnectionResetError",
               "RuntimeError", "NotImplementedError", "TypeError", "ValueError", "UnicodeDecodeError", "UnicodeEncodeError",
               "OverflowError", "ZeroDivisionError", "StopIteration", "ArithmeticError", "SyntaxError", "KeyboardInterrupt"]


class VType(V):
    """builtin type object used with isinstance / as constructor"""

    def __init__(self, name):
        self.name = name

    def __repr__(self):
        return f"<type {self.name}>"


def builtin_name(I, name):
    from .interp import VBuiltin
    if name in BUILTIN_EXC:
        return builtin_class("builtins." + name)
    if name in ("int", "bool", "float", "str", "bytes", "bytearray", "memoryview", "list", "dict", "set", "tuple", "object", "type", "frozenset"):
        return VType(name)
    if name in ("len", "sum", "min", "max", "any", "all", "isinstance", "range", "round", "sorted", "filter", "print", "hex", "abs",
                "enumerate", "zip", "getattr", "setattr", "repr", "exit", "iter", "next", "reversed", "issubclass", "hasattr", "id", "map", "callable", "ord", "chr", "divmod"):
        return VBuiltin(name)
    if name in I.spec_builtins:
        return VBuiltin("spec." + name)
    if name == "__name__":
        return VStr(c="module")
    if name in ("Optional", "Union", "Any", "Callable", "Type"):
        return VType("typing")
    raise KeyError(name)


def ext_attr(I, modname, name):
    from .interp import VBuiltin
    q = f"{modname}.{name}"
    if modname == "typing" or modname == "__future__":
        return VType("typing")
    if modname == "enum" and name == "IntEnum":
        return builtin_class("enum.IntEnum")
    if q in ("collections.namedtuple",):
        return VBuiltin(q)
    if modname in ("asyncio", "datetime", "xml.etree", "Crypto", "Crypto.Util", "Crypto.Cipher", "urllib", "xml") and name in ("ElementTree", "Util", "Cipher", "Random", "Padding", "AES", "parse"):
        return ExtModule(q)
    if q in ("datetime.datetime", "xml.etree.ElementTree"):
        return ExtModule(q)
    if q in ("datetime.timezone", ):
        return ExtModule(q)
    if q == "datetime.timezone.utc":
        return NONE
    from . import libmodels
    if q in libmodels._CONSTS:
        return mkint(libmodels._CONSTS[q])
    return VBuiltin(q)


# ---------------------------------------------------------------------------------------------
# opaque (uninterpreted) functions of byte strings, memoised on structural keys
# ---------------------------------------------------------------------------------------------

def vkey(I, v):
    if isinstance(v, VBytes):
        return v.key()
    if isinstance(v, VInt):
        if v.c is not None:
            return ("i", v.c)
        return ("it", tid(v.b if v.b is not None else v.i))
    if isinstance(v, VStr):
        return ("s", v.c) if v.c is not None else ("st", tid(v.t))
    if isinstance(v, VBool):
        return ("b", v.c) if v.c is not None else ("bt", tid(v.t))
    if isinstance(v, VNone):
        return ("none",)
    if isinstance(v, VTuple):
        return ("tup",) + tuple(vkey(I, x) for x in v.items)
    if isinstance(v, VFloat):
        return ("f", v.c) if v.c is not None else ("ft", tid(v.t))
    if isinstance(v, VRef):
        return ("ref", v.ref)
    from .loader import ClassInfo
    if isinstance(v, ClassInfo):
        return ("cls", v.qualname)
    raise Unsupported(f"opaque function argument {v!r}")


def _shape(v):
    if isinstance(v, VBytes):
        return ("B",) + tuple(("L", len(s.bs)) if isinstance(s, Lit) else ("V", s.base.get_id()) for s in v.segs)
    return ("S", type(v).__name__)


def _terms(v):
    """z3 terms (or ints) that determine the value, in a fixed order"""
    out = []
    if isinstance(v, VBytes):
        for s in v.segs:
            if isinstance(s, Lit):
                out.extend(s.bs)
            else:
                out.extend([s.off, s.n])
    return out


def _same_args(I, a1, a2):
    for x, y in zip(a1, a2):
        if not isinstance(x, VBytes):
            if vkey(I, x) != vkey(I, y):
                return False
            continue
        for p, q in zip(_terms(x), _terms(y)):
            if isinstance(p, int) and isinstance(q, int):
                if p != q:
                    return False
                continue
            pt = p if not isinstance(p, int) else (z3.BitVecVal(p, 8) if z3.is_bv(q) else z3.IntVal(p))
            qt = q if not isinstance(q, int) else (z3.BitVecVal(q, 8) if z3.is_bv(p) else z3.IntVal(q))
            if pt.get_id() == qt.get_id():
                continue
            if not I.path.known(pt == qt):
                return False
    return True


def opaque_bytes(I, name, args, length, kind="bytes", origin=None):
    """deterministic uninterpreted function returning a byte string of the given length.

    Results are memoised on the structure of the arguments; two argument lists of the same shape whose
    terms are provably equal under the path condition share the result (congruence)."""
    key = ("ob", name) + tuple(vkey(I, a) for a in args)
    m = I.path.memo
    if key not in m:
        shape = ("obs", name) + tuple(_shape(a) for a in args)
        found = None
        for (base, a2) in m.get(shape, []):
            if _same_args(I, args, a2):
                found = base
                break
        if found is None:
            found = z3.Const(fresh(f"{name}"), ARR)
            m.setdefault(shape, []).append((found, list(args)))
        m[key] = (found, [a for a in args])      # keep args alive (ids)
    base = m[key][0]
    return VBytes([View(base, 0, length, origin=origin)], kind)


def opaque_int(I, name, args, lo=None, hi=None):
    key = ("oi", name) + tuple(vkey(I, a) for a in args)
    m = I.path.memo
    if key not in m:
        t = z3.Int(fresh(name))
        if lo is not None:
            I.path.assume(t >= lo)
        if hi is not None:
            I.path.assume(t <= hi)
        m[key] = (VInt(i=t, lo=lo, hi=hi), list(args))
    return m[key][0]


def opaque_bool(I, name, args):
    key = ("obool", name) + tuple(vkey(I, a) for a in args)
    m = I.path.memo
    if key not in m:
        m[key] = (VBool(t=z3.Bool(fresh(name))), list(args))
    return m[key][0]


def whole_origin(vb: VBytes, tag):
    """origin of vb if it is exactly one complete opaque result tagged `tag`"""
    if len(vb.segs) == 1 and isinstance(vb.segs[0], View):
        s = vb.segs[0]
        if s.origin is not None and s.origin[0] == tag and as_const(s.off) == 0:
            return s.origin
    return None


# ---------------------------------------------------------------------------------------------
# sums and folds
# ---------------------------------------------------------------------------------------------

_bsum = z3.Function("bsum", ARR, INT, INT, z3.BitVecSort(W))


def bsum_view(I, s: View):
    """sum of the bytes of a view as a 64-bit vector (exact: lengths are below 2^40)"""
    n = _iv(s.n)
    off = _iv(s.off)
    t = _bsum(s.base, off, n)
    fid = ("bsum", tid(t))
    if fid not in I.path.facts_done:
        I.path.facts_done.add(fid)
        I.path.assume(z3.Implies(n <= 0, t == 0))
        I.path.assume(z3.Implies(n > 0, t == _bsum(s.base, off, n - 1) + z3.ZeroExt(W - 8, z3.Select(s.base, off + n - 1))))
    return VInt(b=t, lo=0, hi=255 * MAXLEN)


def py_sum_bytes(I, vb: VBytes) -> VInt:
    acc = mkint(0)
    for s in vb.segs:
        if isinstance(s, Lit):
            for b in s.bs:
                acc = ops._arith(I, "+", acc, byte_val(b))
        else:
            acc = ops._arith(I, "+", acc, bsum_view(I, s))
    return acc


def spec_fold(I, fn, init, vb: VBytes, name):
    """left fold of fn over the bytes; views become an uninterpreted fold with its unfolding instance"""
    acc = init
    for s in vb.segs:
        if isinstance(s, Lit):
            for b in s.bs:
                acc = I.call(fn, [acc, byte_val(b)], {})
        else:
            acc = fold_view(I, fn, acc, s, name)
    return acc


def fold_view(I, fn, acc, s: View, name):
    acc = I.resolve(acc)
    if not isinstance(acc, VInt):
        raise Unsupported("fold accumulator must be an int")
    F = z3.Function("fold_" + name, z3.BitVecSort(W), ARR, INT, INT, z3.BitVecSort(W))
    a = acc.as_bv()
    n, off = _iv(s.n), _iv(s.off)
    t = F(a, s.base, off, n)
    fid = ("fold", name, tid(t))
    res = VInt(b=t, lo=0, hi=255)
    if fid not in I.path.facts_done:
        I.path.facts_done.add(fid)
        prev = VInt(b=F(a, s.base, off, n - 1), lo=0, hi=255)
        step = I.call(fn, [prev, byte_val(z3.Select(s.base, off + n - 1))], {})
        step = I.resolve(step)
        I.path.assume(z3.Implies(n <= 0, t == a))
        I.path.assume(z3.Implies(n > 0, t == step.as_bv()))
        if not (step.lo is not None and step.lo >= 0 and step.hi is not None and step.hi <= 255
                and acc.lo is not None and acc.lo >= 0 and acc.hi <= 255):
            raise Unsupported(f"fold {name}: step function must map 0..255 x byte into 0..255")
        # consequence of the two defining equations and the interval of the step function
        I.path.assume(z3.ULE(t, 255))
    return res


# ---------------------------------------------------------------------------------------------
# calls
# ---------------------------------------------------------------------------------------------

def want_int(I, v, what="integer"):
    v = I.resolve(v)
    if isinstance(v, VBool):
        v = ops._to_intlike(I, v)
    if not isinstance(v, VInt):
        I.raise_py("builtins.TypeError", f"{what} expected")
    return v


def make_bytes(I, args, kind):
    if not args:
        return VBytes([], kind)
    a = I.resolve(args[0])
    if isinstance(a, VBytes):
        return a.with_kind(kind)
    if isinstance(a, (VInt, VBool)):
        a = want_int(I, a)
        if a.c is not None:
            if a.c < 0:
                I.raise_py("builtins.ValueError", "negative count")
            return VBytes.lit([0] * a.c, kind)
        if I.path.branch(ops.int_cmp("<", a, mkint(0)).term(), "negcount"):
            I.raise_py("builtins.ValueError", "negative count")
        base = z3.K(INT, z3.BitVecVal(0, 8))
        return VBytes([View(base, 0, a.as_int())], kind)
    if isinstance(a, VStr):
        I.raise_py("builtins.TypeError", "string argument without an encoding")
    if isinstance(a, VNone):
        I.raise_py("builtins.TypeError", "cannot convert None to bytes")
    from .values import VAny as _VAny
    if isinstance(a, _VAny):
        # bytes of state with an unknown history: arbitrary bytes of arbitrary length (the same for the same operand on one path)
        I.any_child(a, "bytes")
        n = opaque_int(I, "any_len", [VStr(t=a.t)], 0, MAXLEN)
        return opaque_bytes(I, "any_bytes", [VStr(t=a.t)], n.as_int()).with_kind(kind)
    items = I.iterate(a)
    return VBytes([Lit([I.to_byte(x) for x in items])], kind)


def call_builtin(I, fv, args, kwargs):
    name = fv.name
    fn = _TABLE.get(name)
    if fn is not None:
        return fn(I, fv, args, kwargs)
    if name.startswith(("m.", "c.")):
        return _dispatch_methods(I, fv, args, kwargs)
    if name == "int.from_bytes":
        return int_from_bytes(I, fv, args, kwargs)
    if name == "object.__init__":
        return NONE
    if name.startswith("spec."):
        return I.call_spec(name[5:], args, kwargs)
    from . import libmodels
    return libmodels.call(I, fv, args, kwargs)


def b_ord(I, fv, args, kw):
    v = I.resolve(args[0])
    if isinstance(v, VBytes):
        n = v.length()
        if (isinstance(n, int) and n != 1) or (not isinstance(n, int) and I.path.branch(_iv(n) != 1, "ord_len")):
            I.raise_py("builtins.TypeError", "ord() expected a character")
        return byte_val(v.at(0))
    if isinstance(v, VStr) and v.c is not None:
        if len(v.c) != 1:
            I.raise_py("builtins.TypeError", "ord() expected a character")
        return mkint(ord(v.c))
    if isinstance(v, VStr):
        raise Unsupported("ord of a symbolic string")
    I.raise_py("builtins.TypeError", "ord() expected string of length 1")


def b_chr(I, fv, args, kw):
    v = I.resolve(args[0])
    if isinstance(v, VInt) and v.c is not None:
        if not 0 <= v.c <= 0x10FFFF:
            I.raise_py("builtins.ValueError", "chr() arg not in range")
        return VStr(c=chr(v.c))
    raise Unsupported("chr of a symbolic value")


def b_len(I, fv, args, kw):
    v = I.resolve(args[0])
    if isinstance(v, VBytes):
        n = v.length()
        return mkint(n) if isinstance(n, int) else VInt(i=n, lo=0, hi=MAXLEN)
    if isinstance(v, VTuple):
        return mkint(len(v.items))
    if isinstance(v, VStr):
        if v.c is not None:
            return mkint(len(v.c))
        return opaque_int(I, "strlen", [v], 0, MAXLEN)
    if isinstance(v, VRef):
        o = I.hobj(v)
        if o.kind == "list" and any(isinstance(x, Guarded) for x in o.items):
            acc = mkint(0)
            for x in o.items:
                acc = ops._arith(I, "+", acc, VInt(i=z3.If(x.cond, z3.IntVal(1), z3.IntVal(0)), lo=0, hi=1) if isinstance(x, Guarded) else mkint(1))
            return acc
        if o.kind in ("list", "dict", "set"):
            return mkint(len(o.items))
        return sym_len(I, v, o)
    I.raise_py("builtins.TypeError", "object has no len()")


def b_sum(I, fv, args, kw):
    v = I.resolve(args[0])
    from .values import VAny as _VAny
    if isinstance(v, _VAny):
        return I.any_child(v, "sum")        # state with an unknown history: an arbitrary value
    if isinstance(v, VBytes):
        return py_sum_bytes(I, v)
    acc = mkint(0)
    for x in I.iterate(v):
        acc = ops.binop(I, ast.Add(), acc, x)
    return acc


def b_minmax(I, fv, args, kw):
    items = I.iterate(args[0]) if len(args) == 1 else list(args)
    if not items:
        I.raise_py("builtins.ValueError", "empty sequence")
    best = items[0]
    for x in items[1:]:
        c = ops.compare(I, ast.Lt() if fv.name == "min" else ast.Gt(), x, best)
        if c.c is not None:
            best = x if c.c else best
        else:
            best = ops.union_of([(c.t, x), (z3.Not(c.t), best)])
    return best


def b_anyall(I, fv, args, kw):
    a0 = I.resolve(args[0])
    if isinstance(a0, VRef) and I.hobj(a0).kind == "list" and any(isinstance(x, Guarded) for x in I.hobj(a0).items):
        ts = []
        for x in I.hobj(a0).items:
            if isinstance(x, Guarded):
                t = ops.truth(I, x.val).term()
                ts.append(z3.And(x.cond, t) if fv.name == "any" else z3.Implies(x.cond, t))
            else:
                ts.append(ops.truth(I, x).term())
        return VBool(t=z3.Or(ts) if fv.name == "any" else z3.And(ts))
    items = [ops.truth(I, x).term() for x in I.iterate(args[0])]
    if not items:
        return mkbool(fv.name == "all")
    return VBool(t=z3.Or(items) if fv.name == "any" else z3.And(items))


def type_matches(I, v, t):
    """isinstance(v, t) -> python bool or None if undecidable"""
    if isinstance(t, VTuple):
        return any(type_matches(I, v, x) for x in t.items)
    if isinstance(t, VType):
        n = t.name
        if n == "int":
            return isinstance(v, (VInt, VBool))
        if n == "bool":
            return isinstance(v, VBool)
        if n == "float":
            return isinstance(v, VFloat)
        if n == "str":
            return isinstance(v, VStr)
        if n in ("bytes", "bytearray", "memoryview"):
            return isinstance(v, VBytes) and v.kind == n
        if n == "tuple":
            return isinstance(v, VTuple)
        if n in ("list", "dict", "set"):
            return isinstance(v, VRef) and I.hobj(v).kind in {"list": ("list", "symlist"), "dict": ("dict", "symdict"), "set": ("set", "symset")}[n]
        if n == "object":
            return True
        raise Unsupported(f"isinstance with {n}")
    if isinstance(t, ClassInfo):
        if isinstance(v, VRef):
            o = I.hobj(v)
            if o.kind == "inst":
                return o.cls.issub(t)
            if o.kind == "ext":
                return o.cls is not None and o.cls.issub(t)
            return False
        if isinstance(v, VInt) and v.enum is not None:
            return v.enum.issub(t)
        return False
    raise Unsupported(f"isinstance with {t!r}")


def b_isinstance(I, fv, args, kw):
    v = I.resolve(args[0])
    return mkbool(type_matches(I, v, args[1]))


def b_range(I, fv, args, kw):
    a = [want_int(I, x) for x in args]
    if len(a) == 1:
        lo, hi, st = mkint(0), a[0], mkint(1)
    elif len(a) == 2:
        lo, hi, st = a[0], a[1], mkint(1)
    else:
        lo, hi, st = a
    def pin(v):
        if v.c is None and v.lo is not None and v.hi is not None and v.hi - v.lo <= 64:
            for k in range(v.lo, v.hi + 1):
                if I.path.known(ops.int_cmp("==", v, mkint(k)).term()):
                    return mkint(k)
        return v
    lo, hi, st = pin(lo), pin(hi), pin(st)
    if lo.c is not None and hi.c is not None and st.c is not None:
        return I.new_list([mkint(k) for k in range(lo.c, hi.c, st.c)]) if abs((hi.c - lo.c)) <= 100000 else _unsup("huge range")
    ref = VRef(I.path.alloc(HObj("ext", None, meta={"tag": "range", "lo": lo, "hi": hi, "step": st})))
    return ref


def _unsup(m):
    raise Unsupported(m)


def b_round(I, fv, args, kw):
    v = I.resolve(args[0])
    if isinstance(v, VFloat) and v.c is not None and len(args) == 2 and isinstance(args[1], VInt) and args[1].c is not None:
        return VFloat(c=round(v.c, args[1].c))
    return VFloat(t=z3.Real(fresh("round")))


def b_filter(I, fv, args, kw):
    f, it = args
    out = []
    for x in I.iterate(it):
        keep = ops.truth(I, x) if isinstance(f, VNone) else ops.truth(I, I.call(f, [x], {}))
        if keep.c is not None:
            if keep.c:
                out.append(x)
        elif I.path.branch(keep.t, "filter"):
            out.append(x)
    return I.new_list(out)


def deep_key(I, v):
    """structural key of a value for uninterpreted library functions: containers by content (at the time of the call)"""
    v = I.resolve(v) if hasattr(I, "resolve") else v
    if isinstance(v, VTuple):
        return ("tup",) + tuple(deep_key(I, x) for x in v.items)
    if isinstance(v, VRef):
        o = I.hobj(v)
        if o.kind == "list":
            return ("list",) + tuple(deep_key(I, x) for x in o.items)
        if o.kind == "dict":
            return ("dict",) + tuple((deep_key(I, k), deep_key(I, x)) for k, x in o.items)
        return ("ref", v.ref)
    return vkey(I, v)


def b_sorted(I, fv, args, kw):
    items = I.iterate(args[0])

    def skey(v):
        if isinstance(v, (VInt, VStr)) and v.c is not None:
            return v.c
        if isinstance(v, VTuple) and v.items and isinstance(v.items[0], (VInt, VStr)) and v.items[0].c is not None:
            return v.items[0].c         # tuples with distinct concrete first components: the order is decided by them
        _unsup("sorted of symbolic values")
    try:
        ks = [skey(v) for v in items]
        if len(set(ks)) != len(ks) and any(isinstance(v, VTuple) for v in items):
            _unsup("sorted of tuples with equal first components")
        conc = sorted(items, key=skey)
    except TypeError:
        raise Unsupported("sorted")
    return I.new_list(conc)


def b_getattr(I, fv, args, kw):
    if isinstance(args[1], VStr) and args[1].c is not None:
        from .interp import PyRaise
        try:
            return I.getattr_(args[0], args[1].c)
        except PyRaise as e:
            if len(args) > 2 and I.hobj(e.exc).cls.qualname == "builtins.AttributeError":
                return args[2]
            raise
    raise Unsupported("getattr with symbolic name")


def b_enumerate(I, fv, args, kw):
    return I.new_list([VTuple([mkint(k), x]) for k, x in enumerate(I.iterate(args[0]))])


def b_zip(I, fv, args, kw):
    ls = [I.iterate(a) for a in args]
    return I.new_list([VTuple(list(t)) for t in zip(*ls)])


def b_divmod(I, fv, args, kw):
    a, b = I.resolve(args[0]), I.resolve(args[1])
    return VTuple([ops.binop(I, ast.FloorDiv(), a, b), ops.binop(I, ast.Mod(), a, b)])


def b_abs(I, fv, args, kw):
    v = I.resolve(args[0])
    neg = ops.compare(I, ast.Lt(), v, mkint(0))
    m = ops.unop(I, ast.USub(), v)
    if neg.c is not None:
        return m if neg.c else v
    return ops.union_of([(neg.t, m), (z3.Not(neg.t), v)])


def b_hex(I, fv, args, kw):
    v = want_int(I, args[0])
    if v.c is not None:
        return VStr(c=hex(v.c))
    return I.opaque_str("hex", vkey(I, v))


def b_repr(I, fv, args, kw):
    return I.opaque_str("repr", id(args[0]))


def b_print(I, fv, args, kw):
    return NONE


def b_namedtuple(I, fv, args, kw):
    fields = args[1]
    if not (isinstance(fields, VStr) and fields.c is not None):
        raise Unsupported("namedtuple fields")
    names = fields.c.replace(",", " ").split()
    return VRef(I.path.alloc(HObj("ext", None, meta={"tag": "namedtuple_type", "fields": names})))


def b_reversed(I, fv, args, kw):
    return I.new_list(list(reversed(I.iterate(args[0]))))


_TABLE = {
    "reversed": b_reversed,
    "len": b_len, "sum": b_sum, "min": b_minmax, "max": b_minmax, "any": b_anyall, "all": b_anyall,
    "isinstance": b_isinstance, "range": b_range, "round": b_round, "filter": b_filter, "sorted": b_sorted,
    "getattr": b_getattr, "enumerate": b_enumerate, "zip": b_zip, "abs": b_abs, "hex": b_hex, "repr": b_repr, "ord": b_ord, "chr": b_chr, "divmod": b_divmod,
    "print": b_print, "collections.namedtuple": b_namedtuple,
}


# ---------------------------------------------------------------------------------------------
# type objects as constructors, methods on values
# ---------------------------------------------------------------------------------------------

def call_type(I, t: VType, args, kwargs):
    n = t.name
    if n in ("bytes", "bytearray"):
        return make_bytes(I, args, n)
    if n == "memoryview":
        a = I.resolve(args[0])
        if not isinstance(a, VBytes):
            I.raise_py("builtins.TypeError", "memoryview: a bytes-like object is required")
        return a.with_kind("memoryview")
    if n == "bool":
        if not args:
            return FALSE
        return ops.truth(I, args[0])
    if n == "int":
        if not args:
            return mkint(0)
        a = I.resolve(args[0])
        if isinstance(a, VBool):
            return ops._to_intlike(I, a)
        if isinstance(a, VInt):
            return VInt(c=a.c, b=a.b, i=a.i, lo=a.lo, hi=a.hi)
        if isinstance(a, VFloat):
            if a.c is not None:
                return mkint(int(a.c))
            return VInt(i=ops.trunc_real(a.t))
        if isinstance(a, VStr):
            from . import libmodels
            return libmodels.int_of_str(I, a, args[1:] , kwargs)
        if isinstance(a, VRef) and I.hobj(a).kind == "ext" and I.hobj(a).meta.get("tag") == "json":
            from . import libmodels
            return libmodels.int_of_ext(I, a)
        I.raise_py("builtins.TypeError", "int() argument")
    if n == "float":
        a = I.resolve(args[0])
        if isinstance(a, VFloat):
            return a
        if isinstance(a, (VInt, VBool)):
            a = ops._to_intlike(I, a)
            return VFloat(c=float(a.c)) if a.c is not None else VFloat(t=ops.to_real(I, a))
        raise Unsupported("float() of non-number")
    if n == "str":
        if not args:
            return VStr(c="")
        a = I.resolve(args[0])
        if isinstance(a, VStr):
            return a
        if isinstance(a, VInt) and a.c is not None and a.enum is None:
            return VStr(c=str(a.c))
        from . import libmodels
        return libmodels.str_of(I, a)
    if n == "list":
        return I.new_list(I.iterate(args[0]) if args else [])
    if n == "tuple":
        return VTuple(I.iterate(args[0]) if args else [])
    if n in ("set", "frozenset"):
        if args and isinstance(args[0], VRef) and I.hobj(args[0]).kind == "symset":
            o = I.hobj(args[0])
            return new_symset(I, list(o.items), list(o.meta["mem"]))
        return I.new_set(I.iterate(args[0]) if args else [])
    if n == "dict":
        d = I.new_dict()
        if args and isinstance(args[0], VRef) and I.hobj(args[0]).kind == "symdict":
            return new_symdict(I, list(I.hobj(args[0]).items))
        if args:
            I.dict_update(d, args[0])
        for k, v in kwargs.items():
            I.dict_set(d, VStr(c=k), v)
        return d
    if n == "type":
        a = I.resolve(args[0])
        if isinstance(a, VRef) and I.hobj(a).kind == "inst":
            return I.hobj(a).cls
        raise Unsupported("type() of a value")
    if n == "object":
        return VRef(I.path.alloc(HObj("inst", builtin_class("builtins.object"), {})))
    raise Unsupported(f"call of type {n}")


def instantiate_builtin(I, cls, args, kwargs):
    raise Unsupported(f"instantiate builtin class {cls.qualname}")


def builtin_class_attr(I, cls, name):
    raise Unsupported(f"attribute {name} of builtin class {cls.qualname}")


def enum_class_attr(I, cls, name):
    from .interp import VBuiltin
    if name in ("__members__",):
        raise Unsupported("enum __members__")
    return None


def inst_ext_attr(I, ref, o, name):
    from . import libmodels
    return libmodels.inst_ext_attr(I, ref, o, name)


def super_ext(I, sup, dyn, name):
    from .interp import VBuiltin
    if name == "__init__":
        return VBuiltin("object.__init__", sup.self_val)
    return None


def value_attr(I, base, name):
    from .interp import VBuiltin
    if isinstance(base, VType):
        if base.name == "int" and name == "from_bytes":
            return VBuiltin("int.from_bytes")
        if base.name == "bytes" and name == "fromhex":
            return VBuiltin("bytes.fromhex")
        if base.name == "dict" and name == "fromkeys":
            return VBuiltin("dict.fromkeys")
        raise Unsupported(f"{base.name}.{name}")
    if isinstance(base, (VBytes, VStr, VInt, VFloat, VTuple, VBool)):
        return VBuiltin("m." + type(base).__name__ + "." + name, base)
    if isinstance(base, VNone):
        I.raise_py("builtins.AttributeError", f"'NoneType' object has no attribute '{name}'")
    from .interp import VFunc
    if isinstance(base, VFunc) and name in ("__name__", "__module__"):
        return VStr(c=base.qualname or "f")
    raise Unsupported(f"attribute {name} of {base!r}")


def container_attr(I, ref, o, name):
    from .interp import VBuiltin
    if o.kind == "ext":
        from . import libmodels
        return libmodels.ext_attr_of(I, ref, o, name)
    return VBuiltin(f"c.{name}", ref)


def m_bytes(I, fv, args, kw):
    name = fv.name.split(".")[-1]
    vb: VBytes = fv.self_val
    if name == "hex":
        if vb.is_concrete():
            return VStr(c=vb.concrete().hex())
        return I.opaque_str("hex", vb.key())
    if name == "tobytes":
        return vb.with_kind("bytes")
    if name == "join":
        parts = I.iterate(args[0])
        out = None
        for k_, p_ in enumerate(parts):
            p_ = I.resolve(p_)
            if not isinstance(p_, VBytes):
                I.raise_py("builtins.TypeError", "sequence item: expected a bytes-like object")
            if k_ and vb.length() != 0:
                out = concat(out, vb, "bytes")
            out = p_.with_kind("bytes") if out is None else concat(out, p_, "bytes")
        if isinstance(vb.length(), int) or not parts or len(parts) == 1:
            return out if out is not None else VBytes([], vb.kind if vb.kind != "memoryview" else "bytes")
        raise Unsupported("join with a separator of symbolic length")
    if name == "append":
        raise Unsupported("bytearray.append must be a statement on a name")
    if name == "find":
        return bytes_find(I, vb, I.resolve(args[0]))
    if name == "decode":
        from . import libmodels
        return libmodels.bytes_decode(I, vb, args, kw)
    if name == "startswith":
        p = I.resolve(args[0])
        n = p.conc_len()
        if n is None:
            raise Unsupported("startswith symbolic prefix")
        pre = I.getslice(vb, None, mkint(n))
        return ops.eq_values(I, pre, p)
    if name == "endswith":
        p = I.resolve(args[0])
        if not isinstance(p, VBytes):
            raise Unsupported("endswith argument")
        n = p.length()
        # x.endswith(p)  <=>  len(x) >= len(p) and x[len(x)-len(p):] == p   (p may have symbolic length, e.g. bytes([pad]) * pad)
        ln = _iv(vb.length())
        pn = _iv(n)
        if I.path.branch(ln >= pn, "endswith_len"):
            tail = I.slice_bytes(vb.with_kind("bytes"), z3.simplify(ln - pn), ln)
            return ops.eq_values(I, tail, p.with_kind("bytes"))
        return FALSE
    if name == "release":
        return NONE
    if name == "rstrip" and len(args) == 1:
        chars = I.resolve(args[0])
        if isinstance(chars, VBytes) and chars.conc_len() is None and I.path.known(_iv(chars.length()) <= 1):
            # at most one byte (e.g. x[-1:]): decide which
            if I.path.branch(_iv(chars.length()) == 0, "rstrip_empty_set"):
                return vb
            chars = VBytes([Lit([chars.at(0)])], chars.kind)
        if isinstance(chars, VBytes) and chars.conc_len() == 1:
            c = chars.at(0)
            n = _iv(vb.length())
            k = z3.Int(fresh("rstrip"))
            q = z3.Int(fresh("q"))
            I.path.assume(z3.And(k >= 0, k <= n))
            I.path.assume(z3.ForAll([q], z3.Implies(z3.And(q >= n - k, q < n), vb.at(q) == c)))
            I.path.assume(z3.Or(k == n, vb.at(z3.simplify(n - k - 1)) != c))
            return I.slice_bytes(vb.with_kind("bytes" if vb.kind != "bytearray" else "bytearray"), 0, z3.simplify(n - k))
        if isinstance(chars, VBytes) and chars.conc_len() == 0:
            return vb
    raise Unsupported(f"bytes method {name}")


def bytes_find(I, vb: VBytes, pat: VBytes) -> VInt:
    m = pat.conc_len()
    if m is None or not pat.is_concrete() or m == 0:
        raise Unsupported("find with a symbolic pattern")
    pb = pat.concrete()
    n = vb.length()
    r = z3.Int(fresh("find"))
    k = z3.Int(fresh("k"))
    nn = _iv(n)
    I.path.assume(z3.And(r >= -1, r <= nn - m))
    if len(vb.segs) == 1 and isinstance(vb.segs[0], View):
        # single view: quantify over absolute positions of the underlying array (easier to instantiate)
        sv = vb.segs[0]
        off = _iv(sv.off)

        def amatch(j):
            return z3.And([z3.Select(sv.base, j + q) == pb[q] for q in range(m)])
        I.path.assume(z3.Implies(r >= 0, amatch(off + r)))
        I.path.assume(z3.ForAll([k], z3.Implies(z3.And(k >= off, k + m <= off + nn, z3.Or(r < 0, k < off + r)), z3.Not(amatch(k)))))
        return VInt(i=r, lo=-1, hi=MAXLEN)

    def match(j):
        return z3.And([vb.at(iadd(j, q) if isinstance(j, int) else z3.simplify(j + q)) == pb[q] for q in range(m)])
    I.path.assume(z3.Implies(r >= 0, match(r)))
    I.path.assume(z3.ForAll([k], z3.Implies(z3.And(k >= 0, k + m <= nn, z3.Or(r < 0, k < r)), z3.Not(match(k)))))
    return VInt(i=r, lo=-1, hi=MAXLEN)


def m_int(I, fv, args, kw):
    name = fv.name.split(".")[-1]
    v: VInt = fv.self_val
    if isinstance(v, VBool):
        v = ops._to_intlike(I, v)
    if name == "to_bytes":
        n = want_int(I, args[0] if args else kw["length"])
        order = args[1] if len(args) > 1 else kw.get("byteorder", VStr(c="big"))
        if n.c is None or not (isinstance(order, VStr) and order.c in ("big", "little")):
            raise Unsupported("to_bytes with symbolic length/order")
        return int_to_bytes(I, v, n.c, order.c)
    if name == "bit_length":
        if v.c is not None:
            return mkint(v.c.bit_length())
    raise Unsupported(f"int method {name}")


def int_to_bytes(I, v: VInt, n, order):
    if v.c is not None:
        if v.c < 0 or v.c >= (1 << (8 * n)):
            I.raise_py("builtins.OverflowError", "int too big to convert")
        return VBytes.lit(v.c.to_bytes(n, order))
    lim = 1 << (8 * n)
    if not (v.lo is not None and v.lo >= 0 and v.hi is not None and v.hi < lim):
        bad = z3.Or(ops.int_cmp("<", v, mkint(0)).term(), ops.int_cmp(">=", v, mkint(lim)).term())
        if I.path.branch(bad, "to_bytes_overflow"):
            I.raise_py("builtins.OverflowError", "int too big to convert")
    if n > 8:
        raise Unsupported("to_bytes wider than 8")
    if v.b is not None:
        x = v.b
    else:
        x = z3.Int2BV(v.as_int(), W)
    bs = [z3.simplify(z3.Extract(8 * q + 7, 8 * q, x)) for q in range(n)]     # little endian
    I.path.memo[("tobytes", "little") + tuple(b.get_id() for b in bs)] = (VInt(c=v.c, b=v.b, i=v.i, lo=max(v.lo, 0) if v.lo is not None else 0, hi=min(v.hi, lim - 1) if v.hi is not None else lim - 1), bs)
    if order == "big":
        bs.reverse()
    return VBytes([Lit(bs)])


def int_from_bytes(I, fv, args, kw):
    vb = I.resolve(args[0])
    order = args[1] if len(args) > 1 else kw.get("byteorder", VStr(c="big"))
    if not isinstance(vb, VBytes):
        I.raise_py("builtins.TypeError", "from_bytes: bytes-like required")
    if not (isinstance(order, VStr) and order.c in ("big", "little")):
        raise Unsupported("from_bytes order")
    n = vb.conc_len()
    if n is None:
        # split on the (small, bounded) length
        ln = vb.length()
        hi = None
        for cand in range(0, 9):
            if I.path.known(_iv(ln) <= cand):
                hi = cand
                break
        if hi is None:
            raise Unsupported("from_bytes of unbounded length")
        for cand in range(hi, -1, -1):
            if cand == 0 or I.path.branch(_iv(ln) == cand, "fromlen"):
                if cand == 0:
                    I.path.assume(_iv(ln) == 0)
                n = cand
                break
    if n > 7:
        raise Unsupported("from_bytes wider than 7 bytes")
    bs = [vb.at(k) for k in range(n)]
    if order.c == "big":
        bs.reverse()
    if n and all(not isinstance(b, int) for b in bs):
        hit = I.path.memo.get(("tobytes", "little") + tuple(tid(b) for b in bs))
        if hit is not None:
            return hit[0]          # from_bytes(to_bytes(x)) = x  (to_bytes checked the range)
    acc = mkint(0)
    for q, b in enumerate(bs):
        term = byte_val(b)
        if q:
            term = ops._shift(I, "<<", term, mkint(8 * q))
        acc = ops._bitop(I, "|", acc, term) if q else term
    return acc


def m_str(I, fv, args, kw):
    from . import libmodels
    return libmodels.str_method(I, fv, args, kw)


def m_tuple(I, fv, args, kw):
    raise Unsupported(f"tuple method {fv.name}")


def c_method(I, fv, args, kw):
    name = fv.name[2:]
    ref = fv.self_val
    o = I.hobj(ref)
    if o.kind in ("symset", "symdict", "symlist"):
        return sym_method(I, ref, o, name, args, kw)
    if o.kind == "list":
        if name == "append":
            I.log_write(("cont", ref.ref))
            o.items.append(args[0])
            return NONE
        if name == "extend":
            I.log_write(("cont", ref.ref))
            a0 = I.resolve(args[0])
            if isinstance(a0, VRef) and I.hobj(a0).kind == "symlist" and not any(isinstance(x, Guarded) for x in o.items):
                # extending by a list of symbolic length: the list becomes (in place) the concatenation of its old self and the argument
                from . import symlist
                old = I.new_list(list(o.items))
                cat = I.hobj(symlist.concat_lists(I, [old, a0], name="extended"))
                o.kind, o.items, o.meta = "symlist", [], cat.meta
                return NONE
            o.items.extend(I.iterate(args[0]))
            return NONE
        if name == "pop":
            I.log_write(("cont", ref.ref))
            if not o.items:
                I.raise_py("builtins.IndexError", "pop from empty list")
            return o.items.pop()
        if name == "copy":
            return I.new_list(o.items)
        if name == "index":
            for k, x in enumerate(o.items):
                if I.key_eq(x, args[0]):
                    return mkint(k)
            I.raise_py("builtins.ValueError", "not in list")
    if o.kind == "dict":
        if name == "get":
            return I.dict_get(ref, args[0], args[1] if len(args) > 1 else NONE)
        if name == "update":
            if args:
                I.dict_update(ref, args[0])
            for k, v in kw.items():
                I.dict_set(ref, VStr(c=k), v)
            return NONE
        if name == "clear":
            I.log_write(("cont", ref.ref))
            o.items.clear()
            return NONE
        if name == "items":
            return I.new_list([VTuple([k, v]) for k, v in o.items])
        if name == "keys":
            return I.new_set([k for k, _ in o.items])
        if name == "values":
            return I.new_list([v for _, v in o.items])
        if name == "pop":
            idx = I.dict_find(ref, args[0])
            if idx is None:
                if len(args) > 1:
                    return args[1]
                I.raise_py("builtins.KeyError", "pop")
            I.log_write(("cont", ref.ref))
            return o.items.pop(idx)[1]
        if name == "copy":
            d = I.new_dict()
            I.hobj(d).items = list(o.items)
            return d
        if name == "setdefault":
            idx = I.dict_find(ref, args[0])
            if idx is None:
                I.dict_set(ref, args[0], args[1] if len(args) > 1 else NONE)
                return args[1] if len(args) > 1 else NONE
            return o.items[idx][1]
    if o.kind == "set":
        if name == "add":
            I.set_add(ref, args[0])
            return NONE
        if name == "clear":
            I.log_write(("cont", ref.ref))
            o.items.clear()
            return NONE
        if name == "discard":
            I.log_write(("cont", ref.ref))
            o.items[:] = [y for y in o.items if not I.key_eq(y, args[0])]
            return NONE
        if name == "copy":
            return I.new_set(o.items)
    raise Unsupported(f"{o.kind}.{name}")


def binop_ref(I, o, a, b):
    if isinstance(a, VRef) and isinstance(b, VRef):
        oa, ob = I.hobj(a), I.hobj(b)
        if oa.kind == "list" and ob.kind == "list" and o == "+":
            return I.new_list(oa.items + ob.items)
        if oa.kind in ("set", "symset") and ob.kind in ("set", "symset"):
            return set_binop(I, o, a, oa, b, ob)
    from . import libmodels
    return libmodels.ext_binop(I, o, a, b)


def order_ref(I, o, a, b):
    from . import libmodels
    return libmodels.order_ref(I, o, a, b)


def ext_eq(I, a, oa, b, ob):
    from . import libmodels
    return libmodels.ext_eq(I, a, oa, b, ob)


# --- symbolic sets over a finite universe (exact) ------------------------------------------------

def new_symset(I, universe, member_terms):
    """universe: list of V (concrete keys); member_terms: list of z3 Bool"""
    return VRef(I.path.alloc(HObj("symset", items=list(universe), meta={"mem": list(member_terms)})))


def _set_as_sym(I, ref, o, universe=None):
    """(universe, membership terms) view of a concrete or symbolic set"""
    if o.kind == "symset":
        return o.items, o.meta["mem"]
    return list(o.items), [z3.BoolVal(True)] * len(o.items)


def _align(I, ua, ma, ub, mb):
    """common universe for two finite sets with concrete keys"""
    uni, xa, xb = [], [], []
    for k, m in zip(ua, ma):
        uni.append(k)
        xa.append(m)
        xb.append(z3.BoolVal(False))
    for k, m in zip(ub, mb):
        for j, kk in enumerate(uni):
            if I.key_eq(kk, k):
                xb[j] = m
                break
        else:
            uni.append(k)
            xa.append(z3.BoolVal(False))
            xb.append(m)
    return uni, xa, xb


def set_binop(I, o, a, oa, b, ob):
    ua, ma = _set_as_sym(I, a, oa)
    ub, mb = _set_as_sym(I, b, ob)
    uni, xa, xb = _align(I, ua, ma, ub, mb)
    if o == "&":
        mem = [z3.And(p, q) for p, q in zip(xa, xb)]
    elif o == "|":
        mem = [z3.Or(p, q) for p, q in zip(xa, xb)]
    elif o == "-":
        mem = [z3.And(p, z3.Not(q)) for p, q in zip(xa, xb)]
    else:
        raise Unsupported(f"set operator {o}")
    mem = [z3.simplify(m) for m in mem]
    if all(z3.is_true(m) or z3.is_false(m) for m in mem):
        return I.new_set([k for k, m in zip(uni, mem) if z3.is_true(m)])
    return new_symset(I, uni, mem)


def set_eq(I, a, oa, b, ob):
    ua, ma = _set_as_sym(I, a, oa)
    ub, mb = _set_as_sym(I, b, ob)
    uni, xa, xb = _align(I, ua, ma, ub, mb)
    return VBool(t=z3.And([p == q for p, q in zip(xa, xb)])) if uni else TRUE


def symset_add(I, s, o, x, cond=None):
    I.log_write(("cont", s.ref))
    x = I.resolve(x)
    o.meta["mem"] = list(o.meta["mem"])
    cnd = z3.BoolVal(True) if cond is None else cond
    for j, k in enumerate(o.items):
        r = ops.eq_values(I, k, x)
        if r.c is True:
            o.meta["mem"][j] = z3.simplify(z3.Or(o.meta["mem"][j], cnd))
            return
        if r.c is None:
            # symbolic element: membership of each candidate becomes conditional
            o.meta["mem"][j] = z3.simplify(z3.Or(o.meta["mem"][j], z3.And(cnd, r.t)))
    if isinstance(x, VInt) and x.c is None:
        return      # symbolic enum value: universe already contains every candidate (checked by caller)
    if not any(ops.eq_values(I, k, x).c is True for k in o.items):
        o.items.append(x)
        o.meta["mem"].append(cnd)


def sym_len(I, ref, o):
    if o.kind == "symset":
        acc = mkint(0)
        for m in o.meta["mem"]:
            acc = ops._arith(I, "+", acc, VInt(i=z3.If(m, z3.IntVal(1), z3.IntVal(0)), lo=0, hi=1))
        return acc
    if o.kind == "symlist":
        return o.meta["len"]
    if o.kind == "symdict":
        acc = mkint(0)
        for (k, p, v) in o.items:
            acc = ops._arith(I, "+", acc, VInt(i=z3.If(p, z3.IntVal(1), z3.IntVal(0)), lo=0, hi=1))
        return acc
    if o.kind == "ext" and o.meta.get("len") is not None:
        return o.meta["len"]
    if o.kind == "ext" and o.meta.get("tag") == "json":
        from . import libmodels
        libmodels.used(I, "len(json value): the number of members (TypeError for numbers, booleans and null is not modelled)")
        return libmodels.json_len(I, ref)
    raise Unsupported(f"len of {o.kind}")


def sym_contains(I, ref, o, x):
    x = I.resolve(x)
    if o.kind == "symset":
        r = [z3.And(m, ops.eq_values(I, k, x).term()) for k, m in zip(o.items, o.meta["mem"])]
        return VBool(t=z3.Or(r)) if r else FALSE
    if o.kind == "symdict":
        r = [z3.And(p, ops.eq_values(I, k, x).term()) for (k, p, v) in o.items]
        return VBool(t=z3.Or(r)) if r else FALSE
    if o.kind == "symlist":
        from . import symlist
        return symlist.contains(I, ref, o, x)
    from . import libmodels
    return libmodels.ext_contains(I, ref, o, x)


def sym_method(I, ref, o, name, args, kw):
    if o.kind == "symset":
        if name == "add":
            symset_add(I, ref, o, args[0])
            return NONE
        if name == "clear":
            I.log_write(("cont", ref.ref))
            o.meta["mem"] = [z3.BoolVal(False)] * len(o.items)
            return NONE
        if name == "copy":
            return new_symset(I, o.items, o.meta["mem"])
    if o.kind == "symdict":
        if name == "get":
            return symdict_get(I, ref, o, args[0], args[1] if len(args) > 1 else NONE)
        if name == "update":
            return symdict_update(I, ref, args[0])
        if name == "clear":
            I.log_write(("cont", ref.ref))
            o.items = [(k, z3.BoolVal(False), v) for (k, p, v) in o.items]
            return NONE
        if name == "keys":
            return new_symset(I, [k for k, p, v in o.items], [p for k, p, v in o.items])
        if name == "items":
            from . import symlist
            return symlist.items_view(I, ref, o)
    if o.kind == "symlist":
        from . import symlist
        return symlist.method(I, ref, o, name, args, kw)
    raise Unsupported(f"{o.kind}.{name}")


# --- symbolic dicts over a finite key universe (exact): items = [(key V, present Bool, value V)] --------

def new_symdict(I, triples):
    return VRef(I.path.alloc(HObj("symdict", items=list(triples))))


def symdict_get(I, d, o, k, default):
    k = I.resolve(k)
    alts = []
    rest = z3.BoolVal(True)
    for (kk, p, v) in o.items:
        e = ops.eq_values(I, kk, k)
        if e.c is False:
            continue
        c = z3.simplify(z3.And(p, e.term()))
        alts.append((z3.And(rest, c), v))
        rest = z3.simplify(z3.And(rest, z3.Not(c)))
    if default is None:
        if I.path.branch(rest, "KeyError"):
            I.raise_py("builtins.KeyError", "key")
        return ops.union_of(alts)
    alts.append((rest, default))
    return ops.union_of(alts)


def symdict_set(I, d, o, k, v):
    if o.kind != "symdict":
        raise Unsupported(f"item assignment on {o.kind}")
    I.log_write(("cont", d.ref))
    k = I.resolve(k)
    for j, (kk, p, vv) in enumerate(o.items):
        e = ops.eq_values(I, kk, k)
        if e.c is True:
            o.items[j] = (kk, z3.BoolVal(True), v)
            return
        if e.c is None:
            raise Unsupported("symbolic key store into a symbolic dict")
    o.items.append((k, z3.BoolVal(True), v))


def symdict_update(I, d, other):
    od = I.hobj(d)
    from .values import VAny as _VAny
    if isinstance(other, _VAny):
        raise Unsupported("dict.update from state with an unknown history")
    oo = I.hobj(other)
    if od.kind == "dict":
        # promote to symbolic dict
        od.kind = "symdict"
        od.items = [(k, z3.BoolVal(True), v) for k, v in od.items]
    I.log_write(("cont", d.ref))
    src = [(k, z3.BoolVal(True), v) for k, v in oo.items] if oo.kind == "dict" else oo.items
    for (k, p, v) in src:
        for j, (kk, pp, vv) in enumerate(od.items):
            if I.key_eq(kk, k):
                nv = v if z3.is_true(z3.simplify(p)) else ops.union_of([(p, v), (z3.Not(p), vv)])
                od.items[j] = (kk, z3.simplify(z3.Or(pp, p)), nv)
                break
        else:
            od.items.append((k, p, v))
    return NONE


def dict_eq(I, a, oa, b, ob):
    ta = [(k, z3.BoolVal(True), v) for k, v in oa.items] if oa.kind == "dict" else oa.items
    tb = [(k, z3.BoolVal(True), v) for k, v in ob.items] if ob.kind == "dict" else ob.items
    conj = []
    used = set()
    for (k, p, v) in ta:
        for j, (kk, pp, vv) in enumerate(tb):
            if I.key_eq(kk, k):
                used.add(j)
                conj.append(p == pp)
                conj.append(z3.Implies(p, ops.eq_values(I, v, vv).term()))
                break
        else:
            conj.append(z3.Not(p))
    for j, (kk, pp, vv) in enumerate(tb):
        if j not in used:
            conj.append(z3.Not(pp))
    return VBool(t=z3.And(conj)) if conj else TRUE


def sym_getitem(I, base, o, idx):
    if o.kind == "symdict":
        return symdict_get(I, base, o, idx, None)
    if o.kind == "symlist":
        from . import symlist
        return symlist.getitem(I, base, o, idx)
    from . import libmodels
    return libmodels.ext_getitem(I, base, o, idx)


def sym_setitem(I, base, o, idx, val):
    if o.kind == "symdict":
        return symdict_set(I, base, o, idx, val)
    raise Unsupported(f"item assignment on {o.kind}")


def sym_getslice(I, base, o, lo, hi):
    if o.kind == "symlist":
        from . import symlist
        return symlist.getslice(I, base, o, lo, hi)
    raise Unsupported(f"slice of {o.kind}")


def slice_step(I, base, lo, hi, step):
    step = want_int(I, step)
    if isinstance(base, VBytes) and step.c == -1 and hi is None and lo is not None:
        # b[k::-1] : elements k, k-1, ..., 0  (k clamped to len-1)
        k = want_int(I, lo)
        if k.c is None or k.c < 0:
            raise Unsupported("reverse slice start")
        n = base.length()
        if isinstance(n, int):
            m = min(k.c, n - 1)
            return VBytes([Lit([base.at(q) for q in range(m, -1, -1)])], base.kind)
        # length symbolic: split on len <= k
        for cand in range(0, k.c + 1):
            if I.path.branch(_iv(n) == cand, "revlen"):
                return VBytes([Lit([base.at(q) for q in range(cand - 1, -1, -1)])], base.kind)
        return VBytes([Lit([base.at(q) for q in range(k.c, -1, -1)])], base.kind)
    raise Unsupported("slice with step")


def enter_context(I, v, is_async=False):
    v = I.await_(v) if is_async else v
    if isinstance(v, VBytes):
        return v
    if isinstance(v, VRef):
        o = I.hobj(v)
        if o.kind == "ext" and "enter" in o.meta:
            e = o.meta["enter"]
            return e(I) if callable(e) else e
        if o.kind == "ext":
            return v
    raise Unsupported(f"context manager {v!r}")


def call_ext_object(I, fv, o, args, kwargs):
    from . import libmodels
    return libmodels.call_ext_object(I, fv, o, args, kwargs)


def async_generator(I, fv, args, kwargs):
    from . import libmodels
    return libmodels.async_generator(I, fv, args, kwargs)


_TABLE.update({})


def _dispatch_methods(I, fv, args, kw):
    n = fv.name
    if n.startswith("m.VBytes."):
        return m_bytes(I, fv, args, kw)
    if n.startswith("m.VInt.") or n.startswith("m.VBool."):
        return m_int(I, fv, args, kw)
    if n.startswith("m.VStr."):
        return m_str(I, fv, args, kw)
    if n.startswith("c."):
        return c_method(I, fv, args, kw)
    return None
