"""CPython cross-check of pyvc's model of Python semantics (DESIGN.md 7.2, bounded, never counted as proof).

For a list of functions under contract, concrete inputs are generated (seeded by VERIF_SEED), the function is
executed (a) by the pyvc interpreter with all-concrete values and (b) by the real interpreter (/venv/bin/python)
on the real code; results (value, or exception class) must agree.  A disagreement means the *engine* is wrong:
exit 3, never a VIOLATION.

usage: python3-vt -m pyvc.xcheck [--n 60]
"""
from __future__ import annotations

import argparse
import json
import os
import random
import subprocess
import sys
import time

HERE = os.path.dirname(os.path.dirname(os.path.abspath(__file__)))
REPO = os.environ.get("PYVC_REPO", "/repo")

CMD = "msmart.device.AC.command."

CRC_TABLE = None


def crc8(data):
    c = 0
    for m in data:
        x = c ^ m
        for _ in range(8):
            x = ((x >> 1) ^ 0x8C) if (x & 1) else (x >> 1)
        c = x
    return c


def frame(rng, rid=None, blen=None, ftype=None, good=True):
    blen = rng.choice([0, 1, 2, 3, 5, 15, 16, 17, 19, 20, 21, 22, 23, 24, 30]) if blen is None else blen
    body = bytes([rid if rid is not None else rng.choice([0xC0, 0xB5, 0xB1, 0xB0, 0xC1, rng.randrange(256)])] + [rng.randrange(256) for _ in range(blen)])
    if body[0] == 0xB5 and rng.random() < 0.7:
        # plausible capability list
        recs = b""
        n = rng.randrange(0, 5)
        for _ in range(n):
            cid = rng.choice([0x0212, 0x0214, 0x0215, 0x0225, 0x0210, 0x0018, 0x0043, 0x9999, 0x0040, 0x021F])
            size = rng.choice([0, 1, 1, 1, 2, 6, 7])
            recs += bytes([cid & 0xFF, cid >> 8, size]) + bytes(rng.randrange(256) for _ in range(size))
        body = bytes([0xB5, n]) + recs + bytes([rng.choice([0, 0, 1]), rng.randrange(256)])
    if body[0] in (0xB1, 0xB0) and rng.random() < 0.7:
        recs = b""
        n = rng.randrange(0, 4)
        for _ in range(n):
            pid = rng.choice([0x0009, 0x000A, 0x0018, 0x001A, 0x0039, 0x0042, 0x0043, 0x0048, 0x00E3, 0x0015, 0x7777])
            size = rng.choice([0, 1, 1, 2, 3])
            recs += bytes([pid & 0xFF, pid >> 8, rng.choice([0, 0x10]), size]) + bytes(rng.randrange(256) for _ in range(size))
        body = bytes([body[0], n]) + recs
    body += bytes([rng.randrange(256)])                        # message id
    body += bytes([crc8(body) if rng.random() < 0.8 else (-sum(body)) & 0xFF])
    head = bytes([0xAA, (len(body) + 10) & 0xFF, 0xAC, 0, 0, 0, 0, 0, 0, ftype if ftype is not None else rng.choice([3, 3, 3, 5, 2])])
    f = head + body
    f += bytes([(-sum(f[1:])) & 0xFF])
    if not good:
        k = rng.randrange(len(f))
        f = f[:k] + bytes([f[k] ^ (1 << rng.randrange(8))]) + f[k + 1:]
    return f


def jb(b, kind="bytes"):
    return {"t": "bytes", "kind": kind, "hex": bytes(b).hex()}


def cases(rng, n):
    out = []
    for _ in range(n):
        data = bytes(rng.randrange(256) for _ in range(rng.choice([0, 1, 2, 7, 31, 64])))
        out.append(("msmart.crc8.calculate", {"data": jb(data)}))
        out.append(("msmart.frame.Frame.checksum", {"frame": jb(data)}))
        f = frame(rng, good=rng.random() < 0.8)
        out.append(("msmart.frame.Frame.validate", {"frame": jb(f, "memoryview")}))
        out.append((CMD + "Response.construct", {"frame": jb(f if rng.random() < 0.85 else f[:rng.randrange(len(f) + 1)])}))
        out.append((CMD + "Response.construct", {"frame": jb(frame(rng, rid=0xC0, blen=rng.choice([14, 15, 18, 19, 20, 21, 22, 23]), ftype=3))}))
        out.append((CMD + "StateResponse._parse_temperature",
                    {"self": {"t": "obj", "cls": CMD + "StateResponse", "id": 1, "fields": {}},
                     "data": {"t": "int", "v": rng.randrange(256)}, "decimals": {"t": "float", "v": repr(rng.randrange(16) / 10)},
                     "fahrenheit": {"t": "bool", "v": rng.random() < 0.5}}))
        st = {"beep_on": rng.random() < 0.5, "power_on": rng.random() < 0.5, "eco": rng.random() < 0.5, "turbo": rng.random() < 0.5,
              "fahrenheit": rng.random() < 0.5, "sleep": rng.random() < 0.5, "freeze_protection": rng.random() < 0.5,
              "follow_me": rng.random() < 0.5, "purifier": rng.random() < 0.5, "aux_heat": rng.random() < 0.5,
              "force_aux_heat": rng.random() < 0.5, "independent_aux_heat": rng.random() < 0.5}
        fields = {k: {"t": "bool", "v": v} for k, v in st.items()}
        fields.update({"_device_type": {"t": "int", "v": 0xAC}, "_frame_type": {"t": "int", "v": 2}, "_protocol_version": {"t": "int", "v": 0},
                       "target_temperature": {"t": "float", "v": repr(rng.randrange(26, 88) / 2)},
                       "operational_mode": {"t": "int", "v": rng.randrange(8)}, "fan_speed": {"t": "int", "v": rng.randrange(128)},
                       "swing_mode": {"t": "int", "v": rng.randrange(16)}, "target_humidity": {"t": "int", "v": rng.randrange(101)}})
        out.append((CMD + "SetStateCommand.tobytes", {"self": {"t": "obj", "cls": CMD + "SetStateCommand", "id": 1, "fields": fields}}))
        out.append((CMD + "PropertyId.decode", {"self": {"t": "enum", "cls": CMD + "PropertyId", "v": rng.choice([9, 10, 0x15, 0x18, 0x1A, 0x39, 0x42, 0x43, 0x48, 0x4B, 0xE3, 0x21E])},
                                               "data": jb(bytes(rng.randrange(256) for _ in range(rng.choice([0, 1, 2, 3]))), "memoryview")}))
        out.append(("msmart.lan._LanProtocolV3._encode_handshake_request",
                    {"self": {"t": "obj", "cls": "msmart.lan._LanProtocolV3", "id": 1, "fields": {}},
                     "packet_id": {"t": "int", "v": rng.randrange(65536)}, "data": jb(bytes(rng.randrange(256) for _ in range(rng.choice([0, 1, 64]))))}))
        out.append(("msmart.lan._Packet.decode", {"data": jb(bytes([0x5a, 0x5a] * rng.choice([0, 1, 1]) + [rng.randrange(256) for _ in range(rng.choice([0, 3, 4, 8, 60]))]))}))
        # string building / hashing over concrete strings (C19); AES / strxor are uninterpreted and not cross-checked
        word = lambda: "".join(rng.choice("abcXYZ019_+@.") for _ in range(rng.choice([0, 1, 5, 12])))
        out.append(("msmart.cloud.NetHomePlusCloud._Security.encrypt_password",
                    {"self": {"t": "obj", "cls": "msmart.cloud.NetHomePlusCloud._Security", "id": 1, "fields": {}},
                     "login_id": {"t": "str", "v": word()}, "password": {"t": "str", "v": word() + rng.choice(["", "", "\u00e9"])}}))
    return out


# ---- pyvc side ----------------------------------------------------------------------------------------------

def from_json(I, v):
    from .values import NONE, HObj, VBool, VBytes, VFloat, VInt, VRef, VStr, VTuple
    t = v["t"]
    if t == "none":
        return NONE
    if t == "int":
        return VInt(c=v["v"])
    if t == "bool":
        return VBool(c=bool(v["v"]))
    if t == "float":
        return VFloat(c=float(v["v"]))
    if t == "str":
        return VStr(c=v["v"])
    if t == "bytes":
        return VBytes.lit(bytes.fromhex(v["hex"]), v.get("kind", "bytes"))
    if t == "enum":
        return VInt(c=v["v"], enum=I.class_by_qual(v["cls"]))
    if t == "obj":
        cls = I.class_by_qual(v["cls"])
        return VRef(I.path.alloc(HObj("inst", cls, {k: from_json(I, x) for k, x in v["fields"].items()})))
    raise ValueError(t)


def to_json(I, v, depth=0):
    from .loader import ClassInfo
    from .values import VBool, VBytes, VFloat, VInt, VNone, VRef, VStr, VTuple
    if isinstance(v, VNone):
        return None
    if isinstance(v, VBool):
        return v.c if v.c is not None else "<symbolic>"
    if isinstance(v, VInt):
        return v.c if v.c is not None else "<symbolic>"
    if isinstance(v, VFloat):
        return round(v.c, 9) if v.c is not None else "<symbolic>"
    if isinstance(v, VStr):
        return v.c if v.c is not None else "<opaque str>"
    if isinstance(v, VBytes):
        return v.concrete().hex() if v.is_concrete() else "<symbolic>"
    if isinstance(v, VTuple):
        return [to_json(I, x, depth + 1) for x in v.items]
    if isinstance(v, VRef):
        o = I.hobj(v)
        if o.kind == "inst":
            return {"__class__": o.cls.name, **{k: to_json(I, x, depth + 1) for k, x in sorted(o.fields.items()) if depth < 2}}
        if o.kind == "list":
            return [to_json(I, x, depth + 1) for x in o.items]
        if o.kind == "dict":
            return {str(to_json(I, k, depth + 1)): to_json(I, x, depth + 1) for k, x in o.items}
        if o.kind == "symdict":
            import z3
            return {str(to_json(I, k, depth + 1)): to_json(I, x, depth + 1) for k, p, x in o.items if z3.is_true(z3.simplify(p))}
        if o.kind == "set":
            return sorted(str(to_json(I, x, depth + 1)) for x in o.items)
    return f"<{type(v).__name__}>"


def run_pyvc(cases_):
    from .contracts import ContractSet
    from .interp import Interp, PyRaise
    from .loader import Loader
    from .path import Explorer, PathEnd
    from .values import Unsupported
    L = Loader(REPO)
    cs = ContractSet(L, os.path.join(HERE, "contracts"))
    out = []
    for target, inputs in cases_:
        I = Interp(L, None)        # no contracts: everything is executed, nothing is assumed
        I.spec_builtins = set()
        res = {}

        def fn(p, target=target, inputs=inputs, I=I, res=res):
            I.path = p
            I.verifying = None
            c = cs.contracts.get(target)
            I2 = I
            from .contracts import Contract
            m, rest = L.find_function(target)
            v = I.module_get(m, rest[0])
            for q in rest[1:]:
                v = I.class_attr(v, q)
            loc = {k: from_json(I, x) for k, x in inputs.items()}
            fv = v
            if fv.kind == "classmethod":
                fv = fv.bind(fv.cls)
            args = []
            if "self" in loc:
                fv = fv.bind(loc.pop("self"))
            try:
                r = I.await_(I.call_func(fv, [], loc))
                res["value"] = to_json(I, r)
            except PyRaise as e:
                res["raises"] = I.hobj(e.exc).cls.name
        ex = Explorer()
        try:
            paths = ex.run(fn)
            if len(paths) != 1:
                res = {"error": f"{len(paths)} paths on a concrete input"}
        except Unsupported as e:
            res = {"unsupported": str(e)[:120]}
        out.append(res)
    return out


NATIVE = r'''
import sys, json, asyncio
sys.path.insert(0, %r)
from pyvc.replay import build, resolve
def tojson(v, depth=0):
    import enum
    if v is None or isinstance(v, (bool, str)): return v
    if isinstance(v, enum.Enum): return int(v)
    if isinstance(v, int): return v
    if isinstance(v, float): return round(v, 9)
    if isinstance(v, (bytes, bytearray, memoryview)): return bytes(v).hex()
    if isinstance(v, (tuple, list)): return [tojson(x, depth+1) for x in v]
    if isinstance(v, dict): return {str(tojson(k, depth+1)): tojson(x, depth+1) for k, x in v.items()}
    if isinstance(v, (set, frozenset)): return sorted(str(tojson(x, depth+1)) for x in v)
    if hasattr(v, "__dict__"): return {"__class__": type(v).__name__, **{k: tojson(x, depth+1) for k, x in sorted(vars(v).items()) if depth < 2}}
    return "<" + type(v).__name__ + ">"
out = []
for target, inputs in json.load(open(sys.argv[1])):
    memo = {}
    loc = {k: build(x, memo) for k, x in inputs.items()}
    from msmart.device.AC.command import Command
    Command._message_id = 0
    parts = target.split(".")
    owner = resolve(".".join(parts[:-1]))
    f = getattr(owner, parts[-1])
    try:
        if "self" in loc:
            s = loc.pop("self")
            r = f(s, **loc)
        else:
            r = f(**loc)
        if asyncio.iscoroutine(r): r = asyncio.run(r)
        out.append({"value": tojson(r)})
    except Exception as e:
        out.append({"raises": type(e).__name__})
json.dump(out, open(sys.argv[2], "w"))
'''


def main(argv=None):
    ap = argparse.ArgumentParser()
    ap.add_argument("--n", type=int, default=40)
    a = ap.parse_args(argv)
    seed = int(os.environ.get("VERIF_SEED", "0") or 0)
    rng = random.Random(seed)
    cs_ = cases(rng, a.n)
    work = os.path.join(HERE, ".work")
    os.makedirs(work, exist_ok=True)
    fin, fout, fprog = os.path.join(work, "xcheck_in.json"), os.path.join(work, "xcheck_out.json"), os.path.join(work, "xcheck_native.py")
    json.dump(cs_, open(fin, "w"))
    open(fprog, "w").write(NATIVE % HERE)
    env = dict(os.environ)
    env["PYTHONPATH"] = HERE + os.pathsep + REPO
    t0 = time.time()
    r = subprocess.run(["/venv/bin/python", fprog, fin, fout], capture_output=True, text=True, env=env, timeout=600)
    if r.returncode != 0:
        print("xcheck: native side failed", r.stderr[-800:])
        return 3
    native = json.load(open(fout))
    mine = run_pyvc(cs_)
    bad = skipped = uninterp = 0
    for (target, inputs), a_, b_ in zip(cs_, mine, native):
        if "unsupported" in a_:
            skipped += 1
            continue
        if "<symbolic>" in json.dumps(a_) and "raises" not in b_:
            # the result depends on an uninterpreted library function (AES, strxor, ...): not comparable, only the outcome class is
            uninterp += 1
            continue
        if a_.get("raises") == "error":          # struct.error is named `error` natively
            a_["raises"] = "error"
        if a_ != b_:
            # normalise float formatting and object field order already done; report
            bad += 1
            if bad <= 8:
                print(f"XCHECK-MISMATCH {target}\n   input  {json.dumps(inputs)[:300]}\n   pyvc   {json.dumps(a_)[:400]}\n   native {json.dumps(b_)[:400]}")
    print(f"xcheck: {len(cs_)} concrete executions, {skipped} outside the subset, {uninterp} with uninterpreted results, {bad} disagreements, seed={seed}, {time.time() - t0:.1f}s")
    for f in (fin, fout, fprog):
        try:
            os.remove(f)
        except OSError:
            pass
    return 3 if bad else 0


if __name__ == "__main__":
    sys.exit(main())
