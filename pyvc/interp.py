"""Symbolic interpreter for the Python subset described in DESIGN.md 2.2.

Direct style: one path per run; Python exceptions of the interpreted program travel as PyRaise.
"""
from __future__ import annotations

import ast

import z3

from . import ops
from .loader import ClassInfo, ExtModule, Loader, ModuleInfo, builtin_class, has_builtin_class
from .path import Path, PathEnd
from .values import (tid, FALSE, MAXLEN, NONE, TRUE, ARR, Guarded, HObj, Lit, Unsupported, V, VBool, VBytes, VFloat,
                     VInt, VNone, VRef, VStr, VTuple, VUnion, View, as_const, byte_val, concat, fresh,
                     iadd, imax, imin, int2bv, isub, mkbool, mkint, _iv)


class PyRaise(Exception):
    def __init__(self, exc: VRef):
        self.exc = exc


class ReturnSig(Exception):
    def __init__(self, value):
        self.value = value


class BreakSig(Exception):
    pass


class ContinueSig(Exception):
    pass


class _InfeasibleBranch(Exception):
    pass


class VFunc(V):
    def __init__(self, node, module, cls=None, closure=None, self_val=None, qualname=None, kind="func"):
        self.node, self.module, self.cls, self.closure, self.self_val = node, module, cls, closure, self_val
        self.qualname = qualname
        self.kind = kind            # func | classmethod | property

    def bind(self, self_val):
        return VFunc(self.node, self.module, self.cls, self.closure, self_val, self.qualname, self.kind)

    def __repr__(self):
        return f"<func {self.qualname}>"


class VBuiltin(V):
    def __init__(self, name, self_val=None):
        self.name, self.self_val = name, self_val

    def __repr__(self):
        return f"<builtin {self.name}>"


class VSuper(V):
    def __init__(self, cls, self_val):
        self.cls, self.self_val = cls, self_val


class VCoro(V):
    """a call of an async function that has not been awaited yet"""

    def __init__(self, thunk):
        self.thunk = thunk


class Frame:
    def __init__(self, module, locals=None, parent=None, cls=None, func=None):
        self.module, self.locals, self.parent, self.cls, self.func = module, locals if locals is not None else {}, parent, cls, func
        self.cur_exc = None
        self.fnode = None       # the function definition this frame executes (None for module / spec frames)


def decorators(node):
    return [ast.unparse(d) for d in node.decorator_list]


class Interp:
    def __init__(self, loader: Loader, contracts=None):
        self.L = loader
        self.contracts = contracts      # ContractSet or None
        self.path: Path = None
        self.verifying = None           # qualname of the function whose body is being verified
        self.inline_depth = 0
        self.write_log = None
        from . import builtins as B
        self.B = B
        self.str_consts = {}
        self.spec_builtins = set()
        self.final_frames = {}
        self.in_callee = 0
        self.cur_line = None

    def call_spec(self, name, args, kwargs):
        if name == "fold":
            nm = args[3].c if len(args) > 3 else "f"
            seq = self.resolve(args[2])
            if isinstance(seq, VBytes):
                return self.B.spec_fold(self, args[0], args[1], seq, nm)
            acc = args[1]
            for x in self.iterate(seq):
                acc = self.call(args[0], [acc, x], {})
            return acc
        if name == "implies":
            a, b = ops.truth(self, args[0]), ops.truth(self, args[1])
            return VBool(t=z3.Implies(a.term(), b.term()))
        if name == "conforms":
            r_ = self.resolve(args[0])
            if not isinstance(r_, VRef) or self.hobj(r_).kind != "inst":
                return FALSE
            return VBool(t=z3.simplify(self.contracts.conforms(self, r_)))
        if name == "hexbytes":
            s_ = self.resolve(args[0])
            if s_.c is not None:
                try:
                    return VBytes.lit(bytes.fromhex(s_.c))
                except ValueError:
                    return VBytes.lit(b"")
            n_ = self.B.opaque_int(self, "hexlen", [s_], 0, MAXLEN)
            return self.B.opaque_bytes(self, "fromhex", [s_], n_.as_int())
        if name == "pending_getters":
            q_ = self.resolve(args[0])
            return mkint(self.hobj(q_).meta.get("pending_getters", 0))
        if name == "has_own":
            o_ = self.resolve(args[0])
            if isinstance(o_, VRef) and "own" in self.hobj(o_).meta:
                return mkbool(args[1].c in self.hobj(o_).meta["own"])
            return mkbool(isinstance(o_, VRef) and args[1].c in self.hobj(o_).fields)
        if name == "maybe":
            # ghost non-determinism: the event may or may not have happened (both cases are explored)
            return self.new_list([args[0]] if self.path.choose(2, "maybe") == 0 else [])
        if name == "byte_at":
            vb, j = self.resolve(args[0]), self.resolve(args[1])
            return byte_val(vb.at(j.c if j.c is not None else j.as_int()))
        if name == "forall":
            lo, hi, fn = self.resolve(args[0]), self.resolve(args[1]), args[2]
            j = z3.Int(fresh("q"))
            P = self.path
            n0 = len(P.pc)
            body = ops.truth(self, self.call(fn, [VInt(i=j, lo=None, hi=None)], {}))
            if len(P.pc) != n0:
                raise Unsupported(f"forall body must not branch: {P.pc[n0:]}")
            return VBool(t=z3.ForAll([j], z3.Implies(z3.And(j >= lo.as_int(), j < hi.as_int()), body.term())))
        if name == "same_object":
            a, b = self.resolve(args[0]), self.resolve(args[1])
            if isinstance(a, VRef) and isinstance(b, VRef):
                ra = self.hobj(a).meta.get("snapshot_of", a.ref)
                rb = self.hobj(b).meta.get("snapshot_of", b.ref)
                return mkbool(ra == rb)
            if isinstance(a, VRef) or isinstance(b, VRef):
                return FALSE
            return ops.eq_values(self, a, b)
        from . import libmodels
        if name in libmodels.SPEC_LIB:
            return libmodels.SPEC_LIB[name](self, args, kwargs)
        if name == "final":
            fr = self.final_frames.get(args[0].c if len(args) > 1 else None) or self.final_frames.get(None)
            nm = args[-1].c
            if fr is not None and nm not in fr.locals and nm in self.path.ghost.get("loop_ghosts", {}):
                gv_ = self.path.ghost["loop_ghosts"][nm]
                if type(gv_).__name__ == "VMaybeUnbound":
                    if getattr(gv_, "last", None) is None or not self.path.known(ops.int_cmp(">=", gv_.count, mkint(1)).term()):
                        raise Unsupported(f"final({nm!r}): the loop may not have run")
                    gv_ = gv_.last()
                    self.path.ghost["loop_ghosts"][nm] = gv_
                return gv_
            if fr is not None and nm not in fr.locals and self.contracts is not None and self.verifying:
                # a loop ghost of a loop that was never reached keeps its initial value
                c_ = self.contracts.contracts.get(self.verifying)
                reached = self.path.ghost.get("loops_reached", set())
                for lk_, lc_ in (self.contracts.merged_loops(c_).items() if c_ is not None else []):
                    if nm in lc_.get("ghost_init", {}) and (c_.target, lk_) not in reached:
                        outer = Frame(c_.module, locals=self.path.ghost.get("entry_locals", {}), func="<spec>")
                        return self.ev(c_.expr(lc_["ghost_init"][nm]), Frame(c_.module, locals=fr.locals, parent=outer, func="<spec>"))
            if fr is None or nm not in fr.locals:
                raise Unsupported(f"final({nm!r}): no such local at return")
            fv_ = fr.locals[nm]
            if type(fv_).__name__ == "VMaybeUnbound":
                if getattr(fv_, "last", None) is None:
                    raise Unsupported(f"final({nm!r}): bound only inside a loop body")
                some = ops.int_cmp(">=", fv_.count, mkint(1))
                if some.c is False or not self.path.known(some.term()) and some.c is None:
                    raise Unsupported(f"final({nm!r}): the loop may not have run")
                fv_ = fv_.last()
                fr.locals[nm] = fv_
            return fv_
        if name == "events":
            return self.new_list(list(self.path.ghost.get("events", {}).get(args[0].c, [])))
        raise Unsupported(f"spec builtin {name}")

    # ------------------------------------------------------------------------------------------
    # helpers
    # ------------------------------------------------------------------------------------------
    def fresh(self, p):
        return fresh(p)

    def raise_py(self, qual, msg=""):
        cls = builtin_class(qual) if has_builtin_class(qual) else self.class_by_qual(qual)
        raise PyRaise(self.new_exc(cls, [VStr(c=msg)]))

    def new_exc(self, cls, args):
        return VRef(self.path.alloc(HObj("inst", cls, {"args": VTuple(args)}, meta={"line": self.cur_line})))

    def class_by_qual(self, qual):
        if has_builtin_class(qual):
            return builtin_class(qual)
        parts = qual.split(".")
        for k in range(len(parts) - 1, 0, -1):
            mn = ".".join(parts[:k])
            if self.L.is_repo_module(mn):
                v = self.module_get(self.L.module(mn), parts[k])
                for p in parts[k + 1:]:
                    v = self.getattr_(v, p)
                if not isinstance(v, ClassInfo):
                    raise Unsupported(f"{qual} is not a class")
                return v
        raise Unsupported(f"unknown class {qual}")

    def resolve(self, v):
        """pick one alternative of a union (forks the path)"""
        while isinstance(v, VUnion):
            alts = v.alts
            for k, (c, a) in enumerate(alts):
                if k == len(alts) - 1:
                    self.path.assume(c)
                    v = a
                    break
                if self.path.branch(c, "union"):
                    v = a
                    break
        return v

    def narrow(self, v):
        if isinstance(v, VUnion):
            alts = [(c, a) for c, a in v.alts if self.path.feasible(c)]
            if len(alts) == 1:
                return alts[0][1]
            if not alts:
                raise PathEnd("empty union")
            return VUnion(alts)
        return v

    def cond(self, v, label="if"):
        """python truth of v as a decision (forks)"""
        t = ops.truth(self, v)
        if t.c is not None:
            return t.c
        return self.path.branch(t.t, label)

    # strings ------------------------------------------------------------------------------------
    def str_term(self, s: VStr):
        if s.c is not None:
            t = self.str_consts.get(s.c)
            if t is None:
                t = z3.Const("str:" + repr(s.c), s.term().sort())
                self.str_consts[s.c] = t
            return t
        return s.t

    def str_nonempty(self, s):
        f = z3.Function("str_nonempty", s.term().sort(), z3.BoolSort())
        return f(self.str_term(s))

    def opaque_str(self, tag, *keys):
        k = ("str", tag) + tuple(keys)
        if k not in self.path.memo:
            from .values import STR
            self.path.memo[k] = VStr(t=z3.Const(fresh("s_" + tag), STR))
        return self.path.memo[k]

    def str_parts(self, s):
        """a string as the flat sequence of its concatenated pieces (concrete pieces as str, opaque ones as terms)"""
        if s.c is not None:
            return [s.c] if s.c != "" else []
        return self.path.memo.get(("strparts", tid(s.t)), [s.t])

    def str_concat(self, a, b):
        if a.c is not None and b.c is not None:
            return VStr(c=a.c + b.c)
        # concatenation is associative: a string is identified by the flat sequence of its pieces, adjacent literals merged
        parts = []
        for x in self.str_parts(a) + self.str_parts(b):
            if isinstance(x, str) and parts and isinstance(parts[-1], str):
                parts[-1] = parts[-1] + x
            else:
                parts.append(x)
        if len(parts) == 1 and not isinstance(parts[0], str):
            return VStr(t=parts[0])
        r = self.opaque_str("cat", *[("c", x) if isinstance(x, str) else tid(x) for x in parts])
        self.path.memo[("strparts", tid(r.t))] = parts
        return r

    # ------------------------------------------------------------------------------------------
    # module / class namespace
    # ------------------------------------------------------------------------------------------
    def ext_attr(self, modname, name):
        q = f"{modname}.{name}"
        if has_builtin_class(q):
            return builtin_class(q)
        if self.L.is_repo_module(q):
            return self.L.module(q)
        return self.B.ext_attr(self, modname, name)

    def module_get(self, m: ModuleInfo, name):
        key = (m.name, name)
        g = self.path.globals
        if key in g:
            return g[key]
        d = m.defs.get(name)
        if d is None:
            raise KeyError(name)
        if d[0] == "class":
            v = self.L.build_class(m, d[1], self)
        elif d[0] == "func":
            v = VFunc(d[1], m, qualname=f"{m.name}.{name}")
        elif d[0] == "assign":
            v = self.eval_module_level(m, d[1], name)
        elif d[0] == "module":
            v = self.L.module(d[1]) if self.L.is_repo_module(d[1]) else ExtModule(d[1])
        elif d[0] == "from":
            src, nm = d[1], d[2]
            if self.L.is_repo_module(src):
                sm = self.L.module(src)
                if nm in sm.defs:
                    v = self.module_get(sm, nm)
                elif self.L.is_repo_module(src + "." + nm):
                    v = self.L.module(src + "." + nm)
                else:
                    raise Unsupported(f"{src}.{nm} not found")
            else:
                v = self.ext_attr(src, nm)
        g[key] = v
        return v

    def eval_module_level(self, m, expr, name):
        if name == "_LOGGER":
            return VBuiltin("logger")
        fr = Frame(m)
        return self.ev(expr, fr)

    def eval_static(self, node, m, outer=None):
        """evaluate a base-class expression"""
        fr = Frame(m, cls=outer)
        if outer is not None:
            fr.locals = _ClassNS(self, outer)
        return self.ev(node, fr)

    def class_attr(self, cls: ClassInfo, name):
        """look up name on a class (MRO); returns V or raises AttributeError(py)"""
        for c in cls.mro():
            key = ("clsattr", c.qualname, name)
            if key in self.path.globals:
                return self.path.globals[key]
            if name in c.methods:
                node = c.methods[name]
                deco = decorators(node)
                kind = "classmethod" if "classmethod" in deco else "property" if "property" in deco else "staticmethod" if "staticmethod" in deco else "func"
                return VFunc(node, c.module, cls=c, qualname=f"{c.qualname}.{name}", kind=kind)
            if name in c.inner:
                return self.L.build_class(c.module, c.inner[name], self, outer=c)
            if name in c.assigns:
                mut = self.L.mutable_class_attrs()
                if ((c.name, name) in mut or ("*", name) in mut) and self.verifying is not None and not c.is_enum:
                    from .values import VAny
                    v = VAny(f"{c.name}.{name}")
                    self.path.assumption(f"mutable class attribute {c.name}.{name} (assigned somewhere in the repository, not declared in the contract): "
                                         f"arbitrary value at function entry")
                    self.path.globals[key] = v
                    return v
                if c.is_enum and not name.startswith("__"):
                    v = self.enum_member(c, name)
                else:
                    fr = Frame(c.module, locals=_ClassNS(self, c), cls=c)
                    v = self.ev(c.assigns[name], fr)
                self.path.globals[key] = v
                return v
        return None

    # enums ------------------------------------------------------------------------------------
    def enum_members(self, cls: ClassInfo):
        """ordered {name: int} including aliases; canonical = first name per value"""
        key = ("enum", cls.qualname)
        if key not in self.path.globals:
            mem = {}
            for c in reversed(cls.mro()):
                for n, e in c.assigns.items():
                    if n.startswith("__"):
                        continue
                    if isinstance(e, ast.Constant) and isinstance(e.value, int):
                        mem[n] = e.value
                    elif isinstance(e, ast.Name) and e.id in mem:
                        mem[n] = mem[e.id]
                    else:
                        raise Unsupported(f"enum member {cls.qualname}.{n}")
            self.path.globals[key] = mem
        return self.path.globals[key]

    def enum_member(self, cls, name):
        return VInt(c=self.enum_members(cls)[name], enum=cls)

    def enum_values(self, cls):
        seen, out = set(), []
        for n, v in self.enum_members(cls).items():
            if v not in seen:
                seen.add(v)
                out.append(v)
        return out

    def enum_from_value(self, cls, v):
        v = self.resolve(v)
        if isinstance(v, VBool):
            v = ops._to_intlike(self, v)
        if not isinstance(v, VInt):
            self.raise_py("builtins.ValueError", "not a valid enum value")
        vals = self.enum_values(cls)

        def missing():
            # Enum._missing_: a class may map a non-member value to a member (or return None -> ValueError)
            k, fn = cls.find_method("_missing_")
            if fn is not None and not k.builtin:
                r = self.resolve(self.call(self.class_attr(cls, "_missing_") if False else VFunc(fn, k.module, cls=k, qualname=f"{k.qualname}._missing_", kind="classmethod").bind(cls), [v], {}))
                if isinstance(r, VInt) and r.enum is not None and r.enum.issub(cls):
                    return r
                if not isinstance(r, VNone):
                    self.raise_py("builtins.TypeError", "error in _missing_: returned a non-member")
            self.raise_py("builtins.ValueError", f"not a valid {cls.name}")
        if v.c is not None:
            if v.c in vals:
                return VInt(c=v.c, enum=cls)
            return missing()
        member = ops.VBool(t=z3.Or([ops.int_cmp("==", v, mkint(k)).term() for k in vals]))
        if member.c is True or (member.c is None and self.path.branch(member.t, f"enum:{cls.name}")):
            return VInt(b=v.b, i=v.i, lo=max(v.lo, min(vals)) if v.lo is not None else min(vals),
                        hi=min(v.hi, max(vals)) if v.hi is not None else max(vals), enum=cls)
        return missing()

    # ------------------------------------------------------------------------------------------
    # names
    # ------------------------------------------------------------------------------------------
    def lookup(self, name, fr: Frame):
        f = fr
        while f is not None:
            if name in f.locals:
                return f.locals[name]
            f = f.parent
        m = fr.module
        if m is not None and name in m.defs:
            return self.module_get(m, name)
        return self.B.builtin_name(self, name)

    # ------------------------------------------------------------------------------------------
    # expressions
    # ------------------------------------------------------------------------------------------
    def ev(self, node, fr: Frame) -> V:
        m = getattr(self, "ev_" + type(node).__name__, None)
        if m is None:
            raise Unsupported(f"expression {type(node).__name__} at line {getattr(node, 'lineno', '?')}")
        return m(node, fr)

    def ev_Constant(self, node, fr):
        v = node.value
        if v is None:
            return NONE
        if v is True:
            return TRUE
        if v is False:
            return FALSE
        if isinstance(v, int):
            return mkint(v)
        if isinstance(v, float):
            return VFloat(c=v)
        if isinstance(v, str):
            return VStr(c=v)
        if isinstance(v, bytes):
            return VBytes.lit(v)
        if v is Ellipsis:
            return NONE
        raise Unsupported(f"constant {v!r}")

    @staticmethod
    def function_locals(fn_):
        names = getattr(fn_, "_pyvc_locals", None)
        if names is None:
            names = set()
            outer = set()
            stack = list(fn_.body)
            while stack:
                s_ = stack.pop()
                if isinstance(s_, (ast.FunctionDef, ast.AsyncFunctionDef, ast.ClassDef)):
                    names.add(s_.name)
                    continue
                if isinstance(s_, (ast.Lambda, ast.ListComp, ast.SetComp, ast.DictComp, ast.GeneratorExp)):
                    # own scope; only a walrus inside would bind in the function (not used in the repository)
                    continue
                if isinstance(s_, (ast.Global, ast.Nonlocal)):
                    outer |= set(s_.names)
                if isinstance(s_, ast.Name) and isinstance(s_.ctx, (ast.Store, ast.Del)):
                    names.add(s_.id)
                elif isinstance(s_, ast.ExceptHandler) and s_.name:
                    names.add(s_.name)
                elif isinstance(s_, (ast.Import, ast.ImportFrom)):
                    names |= {(a.asname or a.name).split(".")[0] for a in s_.names}
                stack.extend(ast.iter_child_nodes(s_))
            a = fn_.args
            names |= {p.arg for p in a.posonlyargs + a.args + a.kwonlyargs}
            names -= outer
            fn_._pyvc_locals = names
        return names

    def resolve_maybe_unbound(self, fr, name, v, lineno=0):
        """a loop variable read after its loop: the last element, or unbound when the loop body never ran"""
        if getattr(v, "last", None) is None:
            return v
        some = ops.int_cmp(">=", v.count, mkint(1))
        if some.c is True or (some.c is None and self.path.branch(some.term(), "loop_ran")):
            val = v.last()
            for f_ in (fr,):
                if f_.locals.get(name) is v:
                    f_.locals[name] = val
            return val
        if getattr(v, "prev", None) is not None:
            return v.prev
        self.raise_py("builtins.UnboundLocalError", f"cannot access local variable '{name}' where it is not associated with a value")

    def ev_Name(self, node, fr):
        fn_ = fr.fnode
        if fn_ is not None and node.id not in fr.locals and node.id in self.function_locals(fn_):
            # a local of this function that no executed statement has bound yet (Python does not fall back to outer scopes)
            self.raise_py("builtins.UnboundLocalError", f"cannot access local variable '{node.id}' where it is not associated with a value")
        try:
            v = self.lookup(node.id, fr)
        except KeyError:
            raise Unsupported(f"name {node.id} (line {node.lineno})")
        if type(v).__name__ == "VMaybeUnbound":
            v = self.resolve_maybe_unbound(fr, node.id, v, node.lineno)
            if type(v).__name__ != "VMaybeUnbound":
                return v
            i_ = fr.locals.get("_i") if v.is_for else None
            if i_ is not None and (i_.c == 0 or (i_.c is None and self.path.branch(i_.as_int() == 0, "first_iteration"))):
                self.raise_py("builtins.UnboundLocalError", f"cannot access local variable '{node.id}' where it is not associated with a value")
            raise Unsupported(f"local {node.id} holds a value bound by an earlier iteration of a loop (line {node.lineno}); the loop contract must describe it")
        return v

    def ev_NamedExpr(self, node, fr):
        v = self.ev(node.value, fr)
        self.assign(node.target, v, fr)
        return v

    def ev_Attribute(self, node, fr):
        base = self.ev(node.value, fr)
        return self.getattr_(base, node.attr)

    def ev_BinOp(self, node, fr):
        a = self.ev(node.left, fr)
        b = self.ev(node.right, fr)
        return ops.binop(self, node.op, a, b)

    def ev_UnaryOp(self, node, fr):
        return ops.unop(self, node.op, self.ev(node.operand, fr))

    def ev_BoolOp(self, node, fr):
        # short circuit; merged into one term when the operands are pure
        is_and = isinstance(node.op, ast.And)
        if all(self.pure_expr(v, fr) for v in node.values[1:]):
            def rest(k, fr=fr):
                """value of the operands k.. (short circuit), evaluated under the guards of the earlier ones"""
                x = self.ev(node.values[k], fr)
                if k == len(node.values) - 1:
                    return x
                t = ops.truth(self, x)
                if t.c is not None:
                    go_on = t.c if is_and else not t.c
                    return rest(k + 1) if go_on else x
                g = t.t if is_and else z3.Not(t.t)
                holder = {}
                thunk = ast.Constant(value=None)
                try:
                    y = self._under_fn(g, lambda: rest(k + 1))
                except _InfeasibleBranch:
                    return x
                if isinstance(x, VBool) and isinstance(y, VBool):
                    return VBool(t=z3.And(t.t, y.term()) if is_and else z3.Or(t.t, y.term()))
                return ops.union_of([(g, y), (z3.Not(g), x)])
            return rest(0)
        v = None
        for k, e in enumerate(node.values):
            v = self.ev(e, fr)
            if k == len(node.values) - 1:
                return v
            c = self.cond(v, "boolop")
            if is_and and not c:
                return v
            if not is_and and c:
                return v
        return v

    @staticmethod
    def is_spec(fr):
        return fr.func == "<spec>" or (fr.module is not None and fr.module.name.startswith("contracts."))

    def pure_expr(self, node, fr=None):
        """syntactically free of side effects (calls limited to pure builtins / methods on values)"""
        spec = fr is not None and self.is_spec(fr)
        for n in ast.walk(node):
            if spec:
                if isinstance(n, (ast.NamedExpr, ast.Await, ast.Yield, ast.YieldFrom)):
                    return False
                continue
            if isinstance(n, (ast.NamedExpr, ast.Await, ast.Yield, ast.YieldFrom, ast.Lambda, ast.ListComp, ast.DictComp, ast.GeneratorExp, ast.SetComp)):
                return False
            if isinstance(n, ast.Call):
                f = n.func
                if isinstance(f, ast.Name) and f.id in ("bool", "int", "len", "isinstance", "bytes", "float", "old", "abs", "getattr", "hasattr"):
                    continue
                if isinstance(f, ast.Attribute) and f.attr in ("get", "hex", "tobytes", "startswith", "get_property", "keys", "get_from_value", "list"):
                    continue
                if isinstance(f, ast.Name) and f.id == "cast":
                    continue
                if isinstance(f, ast.Attribute) and f.attr[:1].isupper() and not f.attr.isupper():
                    continue        # construction of an enum member, e.g. AirConditioner.BreezeMode(value)
                return False
        return True

    def ev_IfExp(self, node, fr):
        t = ops.truth(self, self.ev(node.test, fr))
        if t.c is not None:
            return self.ev(node.body if t.c else node.orelse, fr)
        if self.pure_expr(node.body, fr) and self.pure_expr(node.orelse, fr):
            nt = z3.Not(t.t)
            a = b = None
            try:
                a = self._under(t.t, node.body, fr, narrow=False)
            except PyRaise as e:
                if self.path.feasible(t.t):
                    raise
                # (the assumption stays, the path is infeasible) -- cannot happen: feasible() was false
                raise PathEnd("infeasible")
            except _InfeasibleBranch:
                a = None
            try:
                b = self._under(nt, node.orelse, fr, narrow=False)
            except _InfeasibleBranch:
                b = None
            if a is None and b is None:
                raise PathEnd("infeasible")
            if a is None:
                return b
            if b is None:
                return a
            return ops.union_of([(t.t, a), (nt, b)])
        if self.path.branch(t.t, "ifexp"):
            return self.ev(node.body, fr)
        return self.ev(node.orelse, fr)

    def _under(self, c, node, fr, narrow=True):
        """evaluate node with c temporarily assumed.

        Decisions taken inside the scope (forks) are kept afterwards as facts conditional on c;
        an exception keeps the assumption itself (the whole path then continues under c)."""
        P = self.path
        P.solver.push()
        saved = len(P.pc)
        try:
            P.assume(c)
        except PathEnd:
            P.solver.pop()
            del P.pc[saved:]
            raise _InfeasibleBranch()
        base = len(P.pc)
        try:
            v = self.ev(node, fr)
            if narrow:
                v = self.narrow(v)
        except PyRaise:
            extra = P.pc[saved:]
            P.solver.pop()
            del P.pc[saved:]
            if not P.feasible(z3.And(extra) if extra else True):
                raise _InfeasibleBranch()
            for x in extra:
                P.assume(x)
            raise
        except PathEnd as e:
            # the scope's assumption is inconsistent with the path: only this branch is infeasible
            P.solver.pop()
            del P.pc[saved:]
            if str(e) in ("infeasible", "assume false", "empty union"):
                raise _InfeasibleBranch()
            raise
        inner = P.pc[base:]
        P.solver.pop()
        del P.pc[saved:]
        for x in inner:
            P.assume(z3.Implies(c, x))
        return v

    def _under_fn(self, c, fn):
        """like _under for a python thunk"""
        P = self.path
        P.solver.push()
        saved = len(P.pc)
        try:
            P.assume(c)
        except PathEnd:
            P.solver.pop()
            del P.pc[saved:]
            raise _InfeasibleBranch()
        base = len(P.pc)
        try:
            v = fn()
        except PyRaise:
            extra = P.pc[saved:]
            P.solver.pop()
            del P.pc[saved:]
            if not P.feasible(z3.And(extra) if extra else True):
                raise _InfeasibleBranch()
            for x in extra:
                P.assume(x)
            raise
        except PathEnd as e:
            P.solver.pop()
            del P.pc[saved:]
            if str(e) in ("infeasible", "assume false", "empty union"):
                raise _InfeasibleBranch()
            raise
        except _InfeasibleBranch:
            P.solver.pop()
            del P.pc[saved:]
            raise
        inner = P.pc[base:]
        P.solver.pop()
        del P.pc[saved:]
        for x in inner:
            P.assume(z3.Implies(c, x))
        return v

    def ev_Compare(self, node, fr):
        left = self.ev(node.left, fr)
        res = None
        for op, cn in zip(node.ops, node.comparators):
            right = self.ev(cn, fr)
            r = ops.compare(self, op, left, right)
            if res is None:
                res = r
            else:
                res = VBool(t=z3.And(res.term(), r.term()))
            left = right
        return res

    def ev_Tuple(self, node, fr):
        return VTuple(self._elts(node.elts, fr))

    def _elts(self, elts, fr):
        out = []
        for e in elts:
            if isinstance(e, ast.Starred):
                sv = self.resolve(self.ev(e.value, fr))
                if isinstance(sv, VRef) and self.hobj(sv).kind == "list":
                    out.extend(self.hobj(sv).items)      # conditionally present elements stay conditional
                else:
                    out.extend(self.iterate(sv))
            else:
                out.append(self.ev(e, fr))
        return out

    def ev_List(self, node, fr):
        return self.new_list(self._elts(node.elts, fr))

    def ev_Set(self, node, fr):
        return self.new_set(self._elts(node.elts, fr))

    def ev_Dict(self, node, fr):
        d = self.new_dict()
        for k, v in zip(node.keys, node.values):
            if k is None:
                other = self.ev(v, fr)
                self.dict_update(d, other)
            else:
                self.dict_set(d, self.ev(k, fr), self.ev(v, fr))
        return d

    def ev_JoinedStr(self, node, fr):
        # an f-string is the concatenation of its literal pieces and the formatted values; a str value without
        # conversion / format spec formats as itself, anything else as an uninterpreted function of the value
        out = VStr(c="")
        for p in node.values:
            if isinstance(p, ast.Constant):
                piece = VStr(c=p.value)
            else:
                v = self.resolve(self.ev(p.value, fr))       # evaluated for its raise points
                plain = p.format_spec is None and p.conversion == -1
                if isinstance(v, VStr) and plain:
                    piece = v
                elif isinstance(v, VInt) and v.c is not None and plain and not isinstance(v, VBool) and getattr(v, "enum", None) is None:
                    piece = VStr(c=str(v.c))
                else:
                    try:
                        k = self.B.deep_key(self, v)
                    except Unsupported:
                        k = ("node", id(node), fresh("fv"))
                    piece = self.opaque_str("fmt", k, ast.dump(p.format_spec) if p.format_spec is not None else None, p.conversion)
            out = self.str_concat(out, piece)
        return out

    def ev_FormattedValue(self, node, fr):
        self.ev(node.value, fr)
        return self.opaque_str("fv", id(node))

    def ev_Lambda(self, node, fr):
        return VFunc(node, fr.module, cls=fr.cls, closure=fr, qualname="<lambda>")

    def ev_Yield(self, node, fr):
        v = self.ev(node.value, fr) if node.value is not None else NONE
        self.path.ghost.setdefault("events", {}).setdefault("yield", []).append(v)
        return NONE

    def ev_Await(self, node, fr):
        v = self.ev(node.value, fr)
        return self.await_(v)

    def await_(self, v):
        if isinstance(v, VCoro):
            return v.thunk()
        return v

    def ev_Subscript(self, node, fr):
        base = self.ev(node.value, fr)
        if isinstance(node.slice, ast.Slice):
            sl = node.slice
            lo = self.ev(sl.lower, fr) if sl.lower is not None else None
            hi = self.ev(sl.upper, fr) if sl.upper is not None else None
            st = self.ev(sl.step, fr) if sl.step is not None else None
            return self.getslice(base, lo, hi, st)
        idx = self.ev(node.slice, fr)
        return self.getitem(base, idx)

    def _emit_value(self, node_elt, f):
        if isinstance(f, _GuardFrame):
            v = self._under(f.cond, node_elt, f.frame)
            return Guarded(f.cond, v)
        return self.ev(node_elt, f)

    def ev_ListComp(self, node, fr):
        gens = node.generators
        if (len(gens) == 1 and not gens[0].ifs and isinstance(node.elt, ast.Name) and isinstance(gens[0].target, ast.Name)
                and node.elt.id == gens[0].target.id):
            # [x for x in xs] / [x async for x in gen()]: a new list with the same elements (xs may have symbolic length)
            src = self.ev(gens[0].iter, fr)
            if isinstance(src, VCoro):
                src = self.await_(src)
            src = self.resolve(src)
            if isinstance(src, VRef) and self.hobj(src).kind == "symlist":
                ends = self.hobj(src).meta.get("raises_at_end") or []
                if ends:
                    kk = self.path.choose(1 + len(ends), "generator_end")
                    if kk:
                        raise PyRaise(self.new_exc(self.class_by_qual(ends[kk - 1]), [VStr(c="raised by the generator")]))
                from . import symlist
                return symlist.concat_lists(self, [src], name="copied")
        if len(gens) == 1 and not gens[0].ifs and not gens[0].is_async and isinstance(gens[0].target, ast.Name) and self.pure_expr(node.elt, fr):
            # [f(x) for x in xs] over a list of symbolic length: a list of the same length whose i-th element is f(xs[i]) (evaluated on demand)
            src = self.resolve(self.ev(gens[0].iter, fr))
            if isinstance(src, VRef) and self.hobj(src).kind == "symlist" and not self.hobj(src).meta.get("raises_at_end"):
                from . import symlist
                so = self.hobj(src)
                tname = gens[0].target.id

                def factory(idx, so=so, src=src):
                    f2 = Frame(fr.module, locals={tname: symlist.getitem(self, src, so, idx)}, parent=fr, cls=fr.cls, func=fr.func)
                    return self.ev(node.elt, f2)
                out = symlist.make(self, self.contracts, "mapped", "mapped", length=so.meta["len"])
                self.hobj(out).meta["elem_factory"] = factory
                return out
        if (len(gens) == 2 and not gens[0].ifs and not gens[1].ifs and isinstance(node.elt, ast.Name)
                and isinstance(gens[1].target, ast.Name) and node.elt.id == gens[1].target.id):
            # [x for a in A for x in f(a)] : concatenation (the inner lists may be symbolic)
            f2 = Frame(fr.module, parent=fr, cls=fr.cls, func=fr.func)
            parts = []
            sym = False
            for a in self.iterate(self.ev(gens[0].iter, fr)):
                self.assign(gens[0].target, a, f2)
                inner = self.ev(gens[1].iter, f2)
                if gens[1].is_async or isinstance(inner, VCoro):
                    inner = self.await_(inner)
                inner = self.resolve(inner)
                if isinstance(inner, VRef) and self.hobj(inner).kind == "symlist":
                    sym = True
                    parts.append(inner)
                else:
                    parts.append(self.new_list(self.iterate(inner)))
            if sym:
                from . import symlist
                return symlist.concat_lists(self, parts)
            return self.new_list([x for p in parts for x in self.hobj(p).items])
        out = []
        self._comp(node.generators, 0, fr, lambda f: out.append(self._emit_value(node.elt, f)))
        return self.new_list(out)

    def ev_GeneratorExp(self, node, fr):
        return self.ev_ListComp(node, fr)

    def ev_SetComp(self, node, fr):
        out = []

        def emit(f):
            if isinstance(f, _GuardFrame):
                if self.path.branch(f.cond, "setcomp_if"):
                    out.append(self.ev(node.elt, f.frame))
                return
            out.append(self.ev(node.elt, f))
        self._comp(node.generators, 0, fr, emit)
        return self.new_set(out)

    def ev_DictComp(self, node, fr):
        if len(node.generators) == 1 and not node.generators[0].ifs and not node.generators[0].is_async:
            g = node.generators[0]
            it = self.resolve(self.ev(g.iter, fr))
            if isinstance(it, VRef) and self.hobj(it).kind == "symset":
                o = self.hobj(it)
                f2 = Frame(fr.module, parent=fr, cls=fr.cls, func=fr.func)
                triples = []
                for k, m in zip(o.items, o.meta["mem"]):
                    if not self.path.feasible(m):
                        continue
                    self.assign(g.target, k, f2)
                    try:
                        kv = self._under(m, node.key, f2)
                        vv = self._under(m, node.value, f2)
                    except _InfeasibleBranch:
                        continue
                    triples.append((kv, m, vv))
                return self.B.new_symdict(self, triples)
        d = self.new_dict()
        def emit_kv(f):
            if isinstance(f, _GuardFrame):
                if not self.path.branch(f.cond, "dictcomp_if"):
                    return
                f = f.frame
            self.dict_set(d, self.ev(node.key, f), self.ev(node.value, f))
        self._comp(node.generators, 0, fr, emit_kv)
        return d

    def _comp(self, gens, k, fr, emit):
        if k == len(gens):
            emit(fr)
            return
        g = gens[k]
        f2 = Frame(fr.module, parent=fr, cls=fr.cls, func=fr.func) if k == 0 else fr
        it = self.ev(g.iter, fr if k == 0 else f2)
        if g.is_async:
            it = self.await_(it)
        r = self.resolve(it)
        if isinstance(r, VRef) and self.hobj(r).kind in ("symdict", "symset") and k == len(gens) - 1 and not g.ifs:
            o = self.hobj(r)
            keys = [(kk, p) for (kk, p, _v) in o.items] if o.kind == "symdict" else list(zip(o.items, o.meta["mem"]))
            for kk, p in keys:
                if not self.path.feasible(p):
                    continue
                self.assign(g.target, kk, f2)
                got = []
                self.path.solver.push()
                saved = len(self.path.pc)
                self.path.assume(p)
                try:
                    emit_inner = lambda f, got=got: got.append(f)
                    self._comp(gens, k + 1, f2, lambda f: None)
                finally:
                    self.path.solver.pop()
                    del self.path.pc[saved:]
                emit(_GuardFrame(f2, p))
            return
        last = k == len(gens) - 1
        for x in self.iterate(it, node=g):
            self.assign(g.target, x, f2)
            if last and g.ifs and all(self.pure_expr(c, f2) for c in g.ifs):
                # side-effect free filters: the element is present under the conjunction of the conditions (no fork per element)
                guard = None
                dead = False
                for c in g.ifs:
                    try:
                        t = ops.truth(self, self.ev(c, f2) if guard is None else self._under(guard, c, f2))
                    except _InfeasibleBranch:
                        dead = True
                        break
                    if t.c is False:
                        dead = True
                        break
                    if t.c is None:
                        guard = t.t if guard is None else z3.And(guard, t.t)
                if dead or (guard is not None and not self.path.feasible(guard)):
                    continue
                if guard is None or self.path.known(guard):
                    self._comp(gens, k + 1, f2, emit)
                else:
                    f3 = Frame(f2.module, locals=dict(f2.locals), parent=f2.parent, cls=f2.cls, func=f2.func)
                    emit(_GuardFrame(f3, guard))
                continue
            if all(self.cond(self.ev(c, f2), "compif") for c in g.ifs):
                self._comp(gens, k + 1, f2, emit)

    def ev_Starred(self, node, fr):
        raise Unsupported("starred expression")

    # calls --------------------------------------------------------------------------------------
    def ev_Call(self, node, fr):
        # logging calls are dropped (DESIGN 2.1 step 2)
        f = node.func
        if isinstance(f, ast.Attribute) and isinstance(f.value, ast.Name) and f.value.id in ("_LOGGER", "logger"):
            if f.attr in ("isEnabledFor", "getEffectiveLevel"):
                # the configured log level is arbitrary (but fixed): code guarded by it is explored both ways
                args_ = [self.ev(a, fr) for a in node.args]
                if f.attr == "isEnabledFor":
                    return self.B.opaque_bool(self, "log_enabled_for", [VStr(c=ast.unparse(node.args[0]) if node.args else "")])
                return self.B.opaque_int(self, "log_level", [], 0, 50)
            self.eval_log_call(node, fr)
            return NONE
        if (isinstance(f, ast.Name) and f.id == "next" and len(node.args) == 2 and isinstance(node.args[0], ast.GeneratorExp)
                and len(node.args[0].generators) == 1 and not node.args[0].generators[0].is_async and not node.keywords):
            # next((e for t in xs if c), default)  ==  for t in xs: if c: r = e; break   else: r = default
            g = node.args[0].generators[0]
            rname = "__pyvc_next"
            hit = [ast.Assign(targets=[ast.Name(id=rname, ctx=ast.Store())], value=node.args[0].elt), ast.Break()]
            body = hit
            for cond in reversed(g.ifs):
                body = [ast.If(test=cond, body=body, orelse=[])]
            loop = ast.For(target=g.target, iter=g.iter, body=body,
                           orelse=[ast.Assign(targets=[ast.Name(id=rname, ctx=ast.Store())], value=node.args[1])])
            loop = ast.copy_location(loop, node)
            ast.fix_missing_locations(loop)
            tn = [n.id for n in ast.walk(g.target) if isinstance(n, ast.Name)]
            saved = {n: fr.locals[n] for n in tn if n in fr.locals}
            try:
                self.st_For(loop, fr)
            finally:
                for n in tn:
                    if n in saved:
                        fr.locals[n] = saved[n]
                    else:
                        fr.locals.pop(n, None)
            return fr.locals.pop(rname)
        if isinstance(f, ast.Name) and f.id == "super" and not node.args:
            sv = fr.locals.get("self", fr.locals.get("cls"))
            if isinstance(sv, VUnion):
                sv = self.resolve(sv)
                if "self" in fr.locals:
                    fr.locals["self"] = sv
            return VSuper(fr.cls, sv)
        if isinstance(f, ast.Name) and f.id == "cast" and len(node.args) == 2:
            return self.ev(node.args[1], fr)
        if isinstance(f, ast.Name) and f.id == "implies" and len(node.args) == 2 and self.is_spec(fr):
            a = ops.truth(self, self.ev(node.args[0], fr))
            if a.c is False:
                return TRUE
            if a.c is True:
                return ops.truth(self, self.ev(node.args[1], fr))
            try:
                b = ops.truth(self, self._under(a.t, node.args[1], fr))
            except _InfeasibleBranch:
                return TRUE
            return VBool(t=z3.Implies(a.t, b.term()))
        if isinstance(f, ast.Name) and f.id == "old" and self.contracts is not None:
            return self.contracts.eval_old(self, node, fr)
        if isinstance(f, ast.Name) and f.id == "pre" and self.contracts is not None and self.is_spec(fr):
            return self.contracts.eval_pre(self, node, fr)
        if isinstance(f, ast.Attribute) and f.attr in ("append", "extend", "clear") and isinstance(f.value, (ast.Name, ast.Attribute)):
            base = self.ev(f.value, fr)
            if isinstance(base, VBytes):
                if base.kind != "bytearray":
                    self.raise_py("builtins.AttributeError", f"bytes has no attribute {f.attr}")
                if f.attr == "clear":
                    self.assign(f.value, VBytes([], "bytearray"), fr)
                    return NONE
                arg = self.ev(node.args[0], fr)
                if f.attr == "append":
                    new = concat(base, VBytes([Lit([self.to_byte(arg)])]), "bytearray")
                else:
                    new = concat(base, self.B.make_bytes(self, [arg], "bytearray"), "bytearray")
                self.assign(f.value, new, fr)
                return NONE
        fv = self.ev(f, fr)
        args = []
        for a in node.args:
            if isinstance(a, ast.Starred):
                args.extend(self.iterate(self.ev(a.value, fr)))
            else:
                args.append(self.ev(a, fr))
        kwargs = {}
        for kw in node.keywords:
            if kw.arg is None:
                d = self.ev(kw.value, fr)
                for k, v in self.dict_items(d):
                    if not (isinstance(k, VStr) and k.c is not None):
                        raise Unsupported("** with symbolic keys")
                    kwargs[k.c] = v
            else:
                kwargs[kw.arg] = self.ev(kw.value, fr)
        return self.call(fv, args, kwargs, node)

    def eval_log_call(self, node, fr):
        """a logging call: Python evaluates the arguments (their raise points and effects are real); the logging module then
        may or may not format them (it depends on the configured level), i.e. may call __str__/__repr__ of repository objects"""
        vals = []
        for a in list(node.args) + [k.value for k in node.keywords]:
            if isinstance(a, ast.Constant):
                continue
            try:
                vals.append(self.ev(a, fr))
            except Unsupported:
                self.path.assumption(f"log-argument-not-evaluated {fr.func or '?'}: {ast.unparse(a)}")
        for v in vals:
            if isinstance(v, VUnion):
                # only an alternative that is an object with an effectful __str__/__repr__ matters; do not fork on the others
                def _eff(x):
                    if not (isinstance(x, VRef) and self.hobj(x).kind == "inst" and self.hobj(x).cls is not None):
                        return False
                    k_ = self.hobj(x).cls
                    return any(k_.find_method(m_)[1] is not None and not self.syntactically_pure(k_, m_, set()) for m_ in ("__str__", "__repr__"))
                if not any(_eff(x) for _, x in v.alts):
                    continue
                v = self.resolve(v)
            if not (isinstance(v, VRef) and self.hobj(v).kind == "inst" and self.hobj(v).cls is not None):
                continue
            cls = self.hobj(v).cls
            for meth in ("__str__", "__repr__"):
                k, fnode = cls.find_method(meth)
                if fnode is None:
                    continue
                if self.syntactically_pure(cls, meth, set()):
                    break
                # formatting this argument has effects: both behaviours of the logging module are explored
                if self.path.choose(2, "log_format") == 1:
                    self.call(self.getattr_(v, meth), [], {})
                break

    def syntactically_pure(self, cls, meth, seen, depth=0):
        """conservative scan: the method (and the repository methods / properties of self it uses) assigns only local names and
        calls no mutating container method"""
        key = (cls.qualname, meth)
        if key in seen:
            return True
        seen.add(key)
        if depth > 6:
            return False
        k, fnode = cls.find_method(meth)
        if fnode is None:
            return True         # not a repository method (builtin / library / plain attribute)
        if not isinstance(fnode, (ast.FunctionDef, ast.AsyncFunctionDef)):
            return False
        for n in ast.walk(fnode):
            if isinstance(n, (ast.AugAssign, ast.Delete, ast.Global, ast.Nonlocal, ast.Await, ast.Yield, ast.YieldFrom)):
                if isinstance(n, ast.AugAssign) and isinstance(n.target, ast.Name):
                    continue
                return False
            if isinstance(n, ast.Assign) and any(not isinstance(t, (ast.Name, ast.Tuple)) for t in n.targets):
                return False
            if isinstance(n, ast.Call):
                f = n.func
                if isinstance(f, ast.Attribute):
                    if f.attr in ("append", "add", "update", "pop", "clear", "extend", "remove", "insert", "setdefault", "discard", "popitem", "write", "put_nowait", "close"):
                        return False
                    if isinstance(f.value, ast.Name) and f.value.id in ("self", "cls") or (isinstance(f.value, ast.Call) and isinstance(f.value.func, ast.Name) and f.value.func.id == "super"):
                        if not self.syntactically_pure(cls, f.attr, seen, depth + 1):
                            return False
                elif isinstance(f, ast.Name) and f.id not in ("str", "repr", "len", "hex", "int", "float", "bool", "dict", "list", "tuple", "sorted", "format", "isinstance", "getattr", "hasattr", "type", "bytes", "min", "max", "sum", "any", "all", "enumerate", "zip", "range", "round", "abs", "super"):
                    return False
            if isinstance(n, ast.Attribute) and isinstance(n.value, ast.Name) and n.value.id == "self" and isinstance(n.ctx, ast.Load):
                # a property of self read by the method
                if cls.find_method(n.attr)[1] is not None and not self.syntactically_pure(cls, n.attr, seen, depth + 1):
                    return False
        return True

    def note_log_args(self, node, fr):
        for a in list(node.args) + [k.value for k in node.keywords]:
            for n in ast.walk(a):
                if isinstance(n, ast.Subscript) or (isinstance(n, ast.Call) and not (isinstance(n.func, ast.Attribute) and n.func.attr in ("hex", "isoformat"))):
                    self.path.assumption(f"log-argument-not-evaluated {fr.func or '?'}: {ast.unparse(a)}")
                    break

    def any_child(self, a, tag, key=None):
        """result of an operation on state with unknown history: again unknown, the same for the same operands on one path"""
        from .values import VAny
        k = ("anychild", tid(a.t), tag, self.B.vkey(self, key) if key is not None else None)
        if k not in self.path.memo:
            self.path.memo[k] = VAny(f"{a.name}.{tag}")
            self.path.assumption(f"operations on {a.name.split('.')[0] + '.' + a.name.split('.')[1] if a.name.count('.') else a.name} (shared mutable state whose history the "
                                 f"contract does not describe) return arbitrary values and are assumed not to raise; in-place updates of it are not tracked")
        return self.path.memo[k]

    def call(self, fv, args, kwargs, node=None):
        fv = self.resolve(fv)
        from .values import VAny as _VAny
        if isinstance(fv, VBuiltin) and fv.name.startswith("any.") and isinstance(fv.self_val, _VAny):
            nm = fv.name[4:]
            if nm in ("add", "append", "extend", "update", "remove", "discard", "clear", "insert", "appendleft", "sort", "reverse"):
                return NONE
            return self.any_child(fv.self_val, nm + "()", VTuple(list(args)) if args else None)
        if isinstance(fv, VFunc):
            return self.call_func(fv, args, kwargs)
        if isinstance(fv, VBuiltin):
            return self.B.call_builtin(self, fv, args, kwargs)
        if isinstance(fv, ClassInfo):
            return self.instantiate(fv, args, kwargs)
        if isinstance(fv, self.B.VType):
            return self.B.call_type(self, fv, args, kwargs)
        if isinstance(fv, VRef):
            o = self.path.heap[fv.ref]
            if o.kind == "ext":
                return self.B.call_ext_object(self, fv, o, args, kwargs)
        raise Unsupported(f"call of {fv!r}")

    def bind_params(self, fv: VFunc, args, kwargs):
        a = fv.node.args
        params = [p.arg for p in a.posonlyargs + a.args]
        loc = {}
        args = list(args)
        if fv.self_val is not None:
            args = [fv.self_val] + args
        if len(args) > len(params):
            if a.vararg is None:
                self.raise_py("builtins.TypeError", "too many positional arguments")
            loc[a.vararg.arg] = VTuple(args[len(params):])
            args = args[:len(params)]
        elif a.vararg is not None:
            loc[a.vararg.arg] = VTuple([])
        for p, v in zip(params, args):
            loc[p] = v
        kwargs = dict(kwargs)
        defaults = a.defaults
        dfr = Frame(fv.module, parent=fv.closure, cls=fv.cls)
        if fv.cls is not None and fv.closure is None:
            dfr.locals = _ClassNS(self, fv.cls)
        for k, p in enumerate(params):
            if p in loc:
                if p in kwargs:
                    self.raise_py("builtins.TypeError", f"multiple values for {p}")
                continue
            if p in kwargs:
                loc[p] = kwargs.pop(p)
                continue
            di = k - (len(params) - len(defaults))
            if di >= 0:
                loc[p] = self.default_value(defaults[di], dfr, fv, p)
            else:
                self.raise_py("builtins.TypeError", f"missing argument {p}")
        for p, d in zip(a.kwonlyargs, a.kw_defaults):
            if p.arg in kwargs:
                loc[p.arg] = kwargs.pop(p.arg)
            elif d is not None:
                loc[p.arg] = self.default_value(d, dfr, fv, p.arg)
            else:
                self.raise_py("builtins.TypeError", f"missing keyword argument {p.arg}")
        if kwargs:
            if a.kwarg is None:
                self.raise_py("builtins.TypeError", f"unexpected keyword argument {sorted(kwargs)[0]}")
            d = self.new_dict()
            for k, v in kwargs.items():
                self.dict_set(d, VStr(c=k), v)
            loc[a.kwarg.arg] = d
        elif a.kwarg is not None:
            loc[a.kwarg.arg] = self.new_dict()
        return loc

    def default_value(self, node, dfr, fv, pname):
        """a default is evaluated once, when the function is defined: a mutable container as default is state shared by all calls"""
        mutable = isinstance(node, (ast.List, ast.Dict, ast.Set, ast.ListComp, ast.DictComp, ast.SetComp)) or (
            isinstance(node, ast.Call) and isinstance(node.func, ast.Name) and node.func.id in ("list", "dict", "set", "bytearray"))
        if not mutable:
            if not any(isinstance(n, (ast.Call, ast.Await)) for n in ast.walk(node)):
                return self.ev(node, dfr)
            # a default that calls something is evaluated ONCE, when the function is defined (import time): the same value for every
            # call, computed no later than anything the verified function does (matters for clocks, random tokens, environment reads)
            key = ("default_once", fv.qualname, pname)
            if key not in self.path.globals:
                from . import libmodels
                now = libmodels.clock_now(self)
                t_def = z3.Int(fresh("clock_at_definition"))
                self.path.assume(t_def <= now)
                self.path.ghost["clock"] = t_def
                try:
                    self.path.globals[key] = self.ev(node, dfr)
                finally:
                    self.path.ghost["clock"] = now
            return self.path.globals[key]
        from .values import VAny
        key = ("default", fv.qualname, pname)
        if key not in self.path.globals:
            self.path.globals[key] = VAny(f"{(fv.qualname or '<lambda>').split('.')[-1]}.{pname}")
            self.path.assumption(f"mutable default argument {pname} of {fv.qualname}: one object shared by every call, arbitrary contents at function entry")
        return self.path.globals[key]

    def call_func(self, fv: VFunc, args, kwargs):
        node = fv.node
        is_async = isinstance(node, ast.AsyncFunctionDef)
        if is_async and any(isinstance(n, (ast.Yield,)) for n in ast.walk(node)):
            if self.verifying is not None and self.verifying.split("#")[0] == fv.qualname and not self.in_callee:
                return VCoro(lambda: self.call_func_now(fv, args, kwargs))       # body verification: yield = ghost event
            return self.B.async_generator(self, fv, args, kwargs)
        if is_async:
            # evaluation is delayed until awaited (argument binding errors included)
            done = []

            def thunk():
                if done:
                    raise Unsupported("coroutine awaited twice")
                done.append(1)
                return self.call_func_now(fv, args, kwargs)
            return VCoro(thunk)
        return self.call_func_now(fv, args, kwargs)

    @staticmethod
    def return_ite(node):
        """the body `[docstring] if c: return a [else:] return b` as the expression `a if c else b` (None if the body has another shape)"""
        cached = getattr(node, "_pyvc_ite", False)
        if cached is not False:
            return cached
        body = [s_ for s_ in node.body if not (isinstance(s_, ast.Expr) and isinstance(s_.value, ast.Constant))]
        out = None
        if body and isinstance(body[0], ast.If) and len(body[0].body) == 1 and isinstance(body[0].body[0], ast.Return) and body[0].body[0].value is not None \
                and not isinstance(node, ast.AsyncFunctionDef):
            a = body[0].body[0].value
            b = None
            if len(body) == 2 and not body[0].orelse and isinstance(body[1], ast.Return) and body[1].value is not None:
                b = body[1].value
            elif len(body) == 1 and len(body[0].orelse) == 1 and isinstance(body[0].orelse[0], ast.Return) and body[0].orelse[0].value is not None:
                b = body[0].orelse[0].value
            if b is not None:
                out = ast.copy_location(ast.IfExp(test=body[0].test, body=a, orelse=b), body[0])
                ast.fix_missing_locations(out)
        node._pyvc_ite = out
        return out

    def call_func_now(self, fv, args, kwargs):
        node = fv.node
        if self.contracts is not None and fv.qualname and not isinstance(node, ast.Lambda):
            if fv.qualname in self.contracts.opaque:
                r = self.contracts.opaque_call(self, fv, list(args) if fv.self_val is None else [fv.self_val] + list(args))
                if r is not None:
                    return r
            c = self.contracts.for_call(fv.qualname, self)
            if c is not None:
                loc = self.bind_params(fv, args, kwargs)
                return self.contracts.apply(self, c, fv, loc)
        loc = self.bind_params(fv, args, kwargs)
        fr = Frame(fv.module, locals=loc, parent=fv.closure, cls=fv.cls, func=fv.qualname)
        if isinstance(node, ast.Lambda):
            return self.ev(node.body, fr)
        fr.fnode = node
        ite = self.return_ite(node)
        if ite is not None:
            return self.ev(ite, fr)       # `if c: return a` / `return b` is the conditional expression (merged when pure, forked otherwise)
        self.inline_depth += 1
        if self.inline_depth > 40:
            raise Unsupported("inline depth exceeded (recursion?)")
        if self.verifying is not None and fv.qualname == self.verifying.split("#")[0] and None not in self.final_frames:
            self.final_frames[None] = fr
        try:
            self.exec_block(node.body, fr)
        except ReturnSig as r:
            return r.value
        finally:
            self.inline_depth -= 1
        return NONE

    def instantiate(self, cls: ClassInfo, args, kwargs):
        if cls.is_enum:
            if len(args) != 1:
                self.raise_py("builtins.TypeError", "enum call")
            return self.enum_from_value(cls, args[0])
        if cls.builtin:
            if cls.is_exception:
                return self.new_exc(cls, args)
            return self.B.instantiate_builtin(self, cls, args, kwargs)
        ref = VRef(self.path.alloc(HObj("inst", cls, {}, meta={"line": self.cur_line})))
        if cls.is_exception:
            self.path.heap[ref.ref].fields["args"] = VTuple(args)
        c, init = cls.find_method("__init__")
        if init is not None:
            self.call_func_now(VFunc(init, c.module, cls=c, self_val=ref, qualname=f"{c.qualname}.__init__"), args, kwargs)
        elif cls.is_exception:
            pass
        elif args or kwargs:
            ext = [b for b in cls.mro() if b.builtin and b.qualname not in ("builtins.object",)]
            if not ext:
                self.raise_py("builtins.TypeError", f"{cls.name}() takes no arguments")
        return ref

    # attribute access ---------------------------------------------------------------------------
    def getattr_(self, base, name):
        from .values import VAny as _VAny
        if isinstance(base, _VAny):
            return VBuiltin("any." + name, base)
        if isinstance(base, VUnion):
            if all(isinstance(a, (VRef, VNone)) for _, a in base.alts):
                base = self.resolve(base)
            else:
                base = self.resolve(base)
        if isinstance(base, VRef):
            o = self.path.heap[base.ref]
            if o.kind == "inst":
                if name in o.fields:
                    # a property of the class wins over an instance attribute of the same name (data descriptor)
                    if any(name in kc.methods and "property" in decorators(kc.methods[name]) for kc in o.cls.mro() if not kc.builtin):
                        pv = self.class_attr(o.cls, name)
                        if isinstance(pv, VFunc) and pv.kind == "property":
                            return self.call_func_now(pv.bind(base), [], {})
                    return o.fields[name]
                if name == "__class__":
                    return o.cls
                v = self.class_attr(o.cls, name)
                if v is None:
                    if o.cls.is_exception and name == "args":
                        return VTuple([])
                    b = self.B.inst_ext_attr(self, base, o, name)
                    if b is not None:
                        return b
                    self.raise_py("builtins.AttributeError", f"{o.cls.name} has no attribute {name}")
                if isinstance(v, VFunc):
                    if v.kind == "property":
                        return self.call_func_now(v.bind(base), [], {})
                    if v.kind == "classmethod":
                        return v.bind(o.cls)
                    if v.kind == "staticmethod":
                        return v
                    return v.bind(base)
                return v
            return self.B.container_attr(self, base, o, name)
        if isinstance(base, ClassInfo):
            if name in ("__name__", "__qualname__"):
                return VStr(c=base.name)
            if base.builtin:
                return self.B.builtin_class_attr(self, base, name)
            v = self.class_attr(base, name)
            if v is None:
                if base.is_enum:
                    b = self.B.enum_class_attr(self, base, name)
                    if b is not None:
                        return b
                self.raise_py("builtins.AttributeError", f"class {base.name} has no attribute {name}")
            if isinstance(v, VFunc) and v.kind == "classmethod":
                return v.bind(base)
            return v
        if isinstance(base, ModuleInfo):
            try:
                return self.module_get(base, name)
            except KeyError:
                if self.L.is_repo_module(base.name + "." + name):
                    return self.L.module(base.name + "." + name)
                self.raise_py("builtins.AttributeError", f"module has no attribute {name}")
        if isinstance(base, ExtModule):
            return self.ext_attr(base.name, name)
        if isinstance(base, VSuper):
            c, fn = base.cls.find_method(name) if False else self._super_lookup(base, name)
            return fn
        if isinstance(base, VInt) and base.enum is not None:
            if name == "value":
                return VInt(c=base.c, b=base.b, i=base.i, lo=base.lo, hi=base.hi)
            if name == "name":
                if base.c is not None:
                    for n, v in self.enum_members(base.enum).items():
                        if v == base.c:
                            return VStr(c=n)
                return self.opaque_str("enumname", base.enum.qualname, tid(base.b if base.b is not None else base.as_int()))
            v = self.class_attr(base.enum, name)
            if isinstance(v, VFunc):
                if v.kind == "property":
                    return self.call_func_now(v.bind(base), [], {})
                if v.kind == "classmethod":
                    return v.bind(base.enum)
                return v.bind(base)
            if v is not None:
                return v
        return self.B.value_attr(self, base, name)

    def _super_lookup(self, sup: VSuper, name):
        sv = sup.self_val
        if isinstance(sv, VRef):
            dyn = self.path.heap[sv.ref].cls
        elif isinstance(sv, ClassInfo):
            dyn = sv
        else:
            raise Unsupported("super() without self")
        c, fn = dyn.find_method(name, after=sup.cls)
        if fn is None:
            b = self.B.super_ext(self, sup, dyn, name)
            if b is not None:
                return None, b
            self.raise_py("builtins.AttributeError", f"super has no {name}")
        deco = decorators(fn)
        f = VFunc(fn, c.module, cls=c, qualname=f"{c.qualname}.{name}", kind="classmethod" if "classmethod" in deco else "func")
        return c, f.bind(sv)

    def setattr_(self, base, name, val):
        base = self.resolve(base)
        if isinstance(base, VRef):
            o = self.path.heap[base.ref]
            if o.kind == "inst":
                # property setter?
                c, fn = o.cls.find_method(name + ".setter")
                if fn is not None:
                    self.call_func_now(VFunc(fn, c.module, cls=c, self_val=base, qualname=f"{c.qualname}.{name}.setter"), [val], {})
                    return
                self.log_write(("field", base.ref, name))
                if not getattr(self, "in_havoc", False) and "own" in o.meta:
                    o.meta["own"].add(name)      # a real store creates / keeps the instance attribute (a contract's havoc does not)
                o.fields[name] = val
                return
            if o.kind == "ext":
                self.log_write(("field", base.ref, name))
                o.fields[name] = val
                return
        if isinstance(base, ClassInfo) and not base.builtin:
            for c in base.mro():
                if name in c.assigns or c is base:
                    pass
            # class attribute store (e.g. Command._message_id): stored on the class where it is defined
            owner = None
            for c in base.mro():
                if name in c.assigns:
                    owner = c
                    break
            owner = base if owner is None or owner is not base else owner
            self.log_write(("clsattr", owner.qualname, name))
            self.path.globals[("clsattr", owner.qualname, name)] = val
            return
        raise Unsupported(f"attribute store on {base!r}.{name}")

    def log_write(self, what):
        if self.write_log is not None:
            self.write_log.append(what)

    # containers ---------------------------------------------------------------------------------
    def new_list(self, items):
        return VRef(self.path.alloc(HObj("list", items=list(items))))

    def new_set(self, items):
        s = VRef(self.path.alloc(HObj("set", items=[])))
        for x in items:
            self.set_add(s, x)
        return s

    def new_dict(self):
        return VRef(self.path.alloc(HObj("dict", items=[])))

    def hobj(self, v: VRef) -> HObj:
        return self.path.heap[v.ref]

    def key_eq(self, a, b):
        """decide equality of two dict/set keys (must be decidable concretely)"""
        r = ops.eq_values(self, a, b)
        if r.c is not None:
            return r.c
        return self.path.branch(r.t, "key")

    def pin_key(self, k):
        """a dictionary key that the path condition pins to one member of its enum is that member (concrete)"""
        if isinstance(k, VInt) and k.c is None and getattr(k, "enum", None) is not None:
            try:
                for m in self.enum_values(k.enum):
                    if self.path.known(k.as_int() == m):
                        return VInt(c=m, enum=k.enum)
            except Exception:       # noqa
                return k
        return k

    def dict_find(self, d: VRef, k):
        o = self.hobj(d)
        for idx, (kk, vv) in enumerate(o.items):
            if self.key_eq(kk, k):
                return idx
        return None

    def dict_set(self, d, k, v):
        k = self.pin_key(k)
        o = self.hobj(d)
        if o.kind != "dict":
            return self.B.symdict_set(self, d, o, k, v)
        self.log_write(("cont", d.ref))
        idx = self.dict_find(d, k)
        if idx is None:
            o.items.append((k, v))
        else:
            o.items[idx] = (o.items[idx][0], v)

    def dict_get(self, d, k, default=None):
        k = self.pin_key(k)
        o = self.hobj(d)
        if o.kind != "dict":
            return self.B.symdict_get(self, d, o, k, default)
        idx = self.dict_find(d, k)
        if idx is None:
            return default
        return o.items[idx][1]

    def dict_items(self, d):
        o = self.hobj(d)
        if o.kind != "dict":
            raise Unsupported("items of a symbolic dict")
        return list(o.items)

    def dict_update(self, d, other):
        if isinstance(other, VRef) and self.hobj(other).kind == "dict":
            for k, v in self.dict_items(other):
                self.dict_set(d, k, v)
            return
        if isinstance(other, VRef) and self.hobj(other).kind == "symdict":
            return self.B.symdict_update(self, d, other)
        raise Unsupported("dict.update argument")

    def set_add(self, s, x):
        o = self.hobj(s)
        if o.kind == "symset":
            return self.B.symset_add(self, s, o, x)
        self.log_write(("cont", s.ref))
        for y in o.items:
            if self.key_eq(y, x):
                return
        o.items.append(x)

    def truth_ref(self, v: VRef) -> VBool:
        o = self.hobj(v)
        if o.kind in ("list", "dict", "set"):
            return mkbool(len(o.items) > 0)
        if o.kind in ("symset", "symlist", "symdict"):
            n = self.B.sym_len(self, v, o)
            return VBool(t=n.as_int() > 0) if n.c is None else mkbool(n.c > 0)
        if o.kind == "ext":
            t = o.meta.get("truth")
            if t is not None:
                return t
            if o.meta.get("tag") == "json":
                # an arbitrary JSON value: falsy exactly when it is empty / zero / null (uninterpreted size)
                from . import libmodels
                return VBool(t=libmodels.json_len(self, v).as_int() > 0)
        return TRUE

    def eq_ref(self, a, b) -> VBool:
        if a.ref == b.ref:
            return TRUE
        oa, ob = self.hobj(a), self.hobj(b)
        if oa.kind == "list" and ob.kind == "list":
            if len(oa.items) != len(ob.items):
                return FALSE
            r = [ops.eq_values(self, x, y).term() for x, y in zip(oa.items, ob.items)]
            return VBool(t=z3.And(r)) if r else TRUE
        if oa.kind in ("dict", "symdict") and ob.kind in ("dict", "symdict"):
            return self.B.dict_eq(self, a, oa, b, ob)
        if oa.kind in ("set", "symset") and ob.kind in ("set", "symset"):
            return self.B.set_eq(self, a, oa, b, ob)
        if oa.kind == "inst" and ob.kind == "inst":
            return FALSE
        if oa.kind == "ext" or ob.kind == "ext":
            return self.B.ext_eq(self, a, oa, b, ob)
        return FALSE

    def order_ref(self, o, a, b):
        return self.B.order_ref(self, o, a, b)

    def binop_ref(self, o, a, b):
        return self.B.binop_ref(self, o, a, b)

    def contains(self, cont, x) -> VBool:
        cont = self.resolve(cont)
        from .values import VAny as _VAny
        if isinstance(cont, _VAny):
            self.any_child(cont, "in")      # records the assumption
            return ops._any_pred(self, "in", cont, self.resolve(x))
        if isinstance(cont, VRef):
            o = self.hobj(cont)
            if o.kind in ("list", "set"):
                r = [z3.And(y.cond, ops.eq_values(self, y.val, x).term()) if isinstance(y, Guarded) else ops.eq_values(self, y, x).term() for y in o.items]
                return VBool(t=z3.Or(r)) if r else FALSE
            if o.kind == "dict":
                r = [ops.eq_values(self, k, x).term() for k, _ in o.items]
                return VBool(t=z3.Or(r)) if r else FALSE
            return self.B.sym_contains(self, cont, o, x)
        if isinstance(cont, VTuple):
            r = [ops.eq_values(self, y, x).term() for y in cont.items]
            return VBool(t=z3.Or(r)) if r else FALSE
        if isinstance(cont, ClassInfo) and cont.is_enum:
            x = self.resolve(x)
            if isinstance(x, VInt):
                if x.enum is not None and x.enum.issub(cont):
                    return TRUE
                # python >= 3.12: value membership
                r = [ops.int_cmp("==", x, mkint(k)).term() for k in self.enum_values(cont)]
                return VBool(t=z3.Or(r))
            return FALSE
        if isinstance(cont, VStr) and isinstance(x, VStr) and cont.c is not None and x.c is not None:
            return mkbool(x.c in cont.c)
        if isinstance(cont, VBytes):
            raise Unsupported("`in` on bytes")
        raise Unsupported(f"`in` on {cont!r}")

    def iterate(self, v, node=None):
        """concrete list of the elements (complete unrolling); Unsupported when symbolic"""
        v = self.resolve(v)
        if isinstance(v, VTuple):
            return list(v.items)
        if isinstance(v, VRef):
            o = self.hobj(v)
            if o.kind in ("list", "set"):
                if any(isinstance(x, Guarded) for x in o.items):
                    raise Unsupported("iteration over a list with conditionally present elements")
                return list(o.items)
            if o.kind == "dict":
                return [k for k, _ in o.items]
            if o.kind == "ext" and "iter" in o.meta:
                return list(o.meta["iter"])
            if o.kind == "symlist" and not o.meta.get("raises_at_end"):
                n = o.meta["len"]
                for k in range(0, 5):
                    if n.c == k or (n.c is None and self.path.known(n.as_int() == k)):
                        from . import symlist
                        return [symlist.getitem(self, v, o, mkint(j)) for j in range(k)]
            raise Unsupported(f"iteration over symbolic {o.kind} needs a loop contract")
        if isinstance(v, VBytes):
            n = v.conc_len()
            if n is None:
                # a short slice of symbolic length (x[a:a+7] of a record): complete case split over its possible lengths
                ln = v.length()
                if not isinstance(ln, int) and self.path.known(ln <= 16):
                    for k in range(0, 17):
                        if self.path.branch(ln == k, "short_len"):
                            return [byte_val(v.at(j)) for j in range(k)]
                    raise PathEnd("infeasible")
            if n is None or n > 4096:
                raise Unsupported("iteration over bytes of symbolic length needs a loop contract")
            return [byte_val(v.at(k)) for k in range(n)]
        if isinstance(v, ClassInfo) and v.is_enum:
            return [VInt(c=k, enum=v) for k in self.enum_values(v)]
        if isinstance(v, VStr) and v.c is not None:
            return [VStr(c=ch) for ch in v.c]
        raise Unsupported(f"iteration over {v!r}")

    # indexing -----------------------------------------------------------------------------------
    def norm_index(self, idx: VInt, n):
        """python index normalisation with IndexError as a raise point; returns Int (python int or z3)"""
        if idx.c is not None and isinstance(n, int):
            k = idx.c + n if idx.c < 0 else idx.c
            if not 0 <= k < n:
                self.raise_py("builtins.IndexError", "index out of range")
            return k
        if idx.c is not None:
            if idx.c >= 0:
                bad = _iv(n) <= idx.c
                k = idx.c
            else:
                bad = _iv(n) < -idx.c
                k = iadd(n, idx.c)
        else:
            i = idx.as_int()
            bad = z3.Or(i >= _iv(n), i < -_iv(n))
            k = z3.If(i < 0, i + _iv(n), i)
        if self.path.branch(bad, "IndexError"):
            self.raise_py("builtins.IndexError", "index out of range")
        return k

    def getitem(self, base, idx):
        base = self.resolve(base)
        idx = self.resolve(idx)
        from .values import VAny as _VAny
        if isinstance(base, _VAny):
            return self.any_child(base, "[]", idx)
        if isinstance(base, VBytes):
            if isinstance(idx, VBool):
                idx = ops._to_intlike(self, idx)
            if not isinstance(idx, VInt):
                self.raise_py("builtins.TypeError", "byte index must be int")
            k = self.norm_index(idx, base.length())
            return byte_val(base.at(k))
        if isinstance(base, VTuple):
            if isinstance(idx, VInt) and idx.c is not None:
                k = self.norm_index(idx, len(base.items))
                return base.items[k]
            raise Unsupported("symbolic tuple index")
        if isinstance(base, VRef):
            o = self.hobj(base)
            if o.kind == "list":
                if isinstance(idx, VInt) and idx.c is not None:
                    k = self.norm_index(idx, len(o.items))
                    return o.items[k]
                if isinstance(idx, VInt) and o.items and all(isinstance(x, VInt) and x.c is not None and x.enum is None and 0 <= x.c < (1 << 32) for x in o.items):
                    k = self.norm_index(idx, len(o.items))
                    kb = int2bv(_iv(k)) if not isinstance(k, int) else None
                    res = z3.BitVecVal(o.items[-1].c, 64)
                    for j in range(len(o.items) - 2, -1, -1):
                        res = z3.If(kb == j, z3.BitVecVal(o.items[j].c, 64), res)
                    return VInt(b=res, lo=min(x.c for x in o.items), hi=max(x.c for x in o.items))
                if isinstance(idx, VInt):
                    k = self.norm_index(idx, len(o.items))
                    # case split over the concrete list (complete)
                    for j in range(len(o.items)):
                        if j == len(o.items) - 1 or self.path.branch(_iv(k) == j, "listidx"):
                            if j == len(o.items) - 1:
                                self.path.assume(_iv(k) == j)
                            return o.items[j]
                raise Unsupported("list index")
            if o.kind == "dict":
                for (kk, vv) in o.items:
                    if self.key_eq(kk, idx):
                        return vv
                self.raise_py("builtins.KeyError", "key")
            return self.B.sym_getitem(self, base, o, idx)
        if isinstance(base, ClassInfo) and base.is_enum:
            if isinstance(idx, VStr) and idx.c is not None:
                mem = self.enum_members(base)
                if idx.c in mem:
                    return VInt(c=mem[idx.c], enum=base)
                self.raise_py("builtins.KeyError", idx.c)
            raise Unsupported("enum lookup by symbolic name")
        if isinstance(base, VStr):
            if base.c is not None and isinstance(idx, VInt) and idx.c is not None:
                k = self.norm_index(idx, len(base.c))
                return VStr(c=base.c[k])
            raise Unsupported("symbolic str index")
        if isinstance(base, ClassInfo):
            return base      # typing generics such as list[int]
        raise Unsupported(f"subscript of {base!r}")

    def slice_bounds(self, n, lo, hi):
        """python slice clamping for step 1; n, results: python int or z3 Int"""
        def clamp(x, default):
            if x is None or isinstance(x, VNone):
                return default
            x = self.resolve(x)
            if isinstance(x, VBool):
                x = ops._to_intlike(self, x)
            if not isinstance(x, VInt):
                self.raise_py("builtins.TypeError", "slice indices must be integers")
            if x.c is not None and isinstance(n, int):
                k = x.c + n if x.c < 0 else x.c
                return max(0, min(n, k))
            if x.c is not None:
                if x.c >= 0:
                    return self._kmin(x.c, n)
                return self._kmax(0, iadd(n, x.c))
            i = x.as_int()
            if x.lo is not None and x.lo >= 0:
                return self._kmin(i, n)
            if x.hi is not None and x.hi < 0:
                return self._kmax(0, iadd(n, i))
            if self.path.known(i >= 0):
                return self._kmin(i, n)
            if self.path.known(i < 0):
                return self._kmax(0, iadd(n, i))
            r = z3.If(i < 0, z3.If(i + _iv(n) < 0, 0, i + _iv(n)), z3.If(i > _iv(n), _iv(n), i))
            return z3.simplify(r)
        return clamp(lo, 0), clamp(hi, n)

    def getslice(self, base, lo, hi, step=None):
        base = self.resolve(base)
        from .values import VAny as _VAny
        if isinstance(base, _VAny):
            return self.any_child(base, "slice", VTuple([x if x is not None else NONE for x in (lo, hi)]))
        if step is not None and not isinstance(step, VNone):
            return self.B.slice_step(self, base, lo, hi, step)
        if isinstance(base, VBytes):
            n = base.length()
            a, b = self.slice_bounds(n, lo, hi)
            return self.slice_bytes(base, a, b)
        if isinstance(base, VTuple) or (isinstance(base, VRef) and self.hobj(base).kind == "list"):
            items = base.items if isinstance(base, VTuple) else self.hobj(base).items
            a, b = self.slice_bounds(len(items), lo, hi)
            if not (isinstance(a, int) and isinstance(b, int)):
                raise Unsupported("symbolic list slice")
            r = items[a:b]
            return VTuple(r) if isinstance(base, VTuple) else self.new_list(r)
        if isinstance(base, VStr) and base.c is not None:
            a, b = self.slice_bounds(len(base.c), lo, hi)
            if isinstance(a, int) and isinstance(b, int):
                return VStr(c=base.c[a:b])
        if isinstance(base, VRef):
            return self.B.sym_getslice(self, base, self.hobj(base), lo, hi)
        raise Unsupported(f"slice of {base!r}")

    def slice_bytes(self, vb: VBytes, a, b) -> VBytes:
        """elements a <= k < b (already clamped to 0..len); empty when b <= a"""
        P = self.path
        out = []
        start = 0
        for s in vb.segs:
            n = s.n() if isinstance(s, Lit) else s.n
            end = iadd(start, n)
            # relative bounds inside this segment
            ra = isub(a, start)
            rb = isub(b, start)
            start = end
            if self._known_le(rb, 0) or self._known_le(n, ra) or self._known_le(rb, ra):
                continue
            lo = 0 if self._known_le(ra, 0) else ra
            hi = n if self._known_le(n, rb) else rb
            if isinstance(lo, int) and isinstance(hi, int) and lo == 0 and isinstance(n, int) and hi == n:
                out.append(s)
            elif isinstance(lo, int) and lo == 0 and hi is n:
                out.append(s)
            elif isinstance(s, Lit):
                if isinstance(lo, int) and isinstance(hi, int):
                    out.append(Lit(s.bs[max(lo, 0):max(min(hi, len(s.bs)), 0)]))
                elif len(s.bs) <= 64:
                    # symbolic cut through a short literal: decide the cut points (complete case split)
                    def pick(x, label):
                        if isinstance(x, int):
                            return max(0, min(len(s.bs), x))
                        for cand in range(0, len(s.bs) + 1):
                            cnd = (_iv(x) <= 0) if cand == 0 else (_iv(x) >= cand) if cand == len(s.bs) else (_iv(x) == cand)
                            if cand == len(s.bs):
                                P.assume(cnd)
                                return cand
                            if P.branch(cnd, label):
                                return cand
                        return len(s.bs)
                    l2, h2 = pick(lo, "litcut_lo"), pick(hi, "litcut_hi")
                    out.append(Lit(s.bs[l2:max(h2, l2)]))
                else:
                    # symbolic cut through a literal: turn the literal into a view
                    base = z3.Const(fresh("litarr"), ARR)
                    for k, x in enumerate(s.bs):
                        P.assume(z3.Select(base, k) == (z3.BitVecVal(x, 8) if isinstance(x, int) else x))
                    out.append(self._subview(View(base, 0, len(s.bs)), ra, rb))
            else:
                out.append(self._subview(s, ra, rb))
        return VBytes(out, vb.kind)

    def _kmin(self, a, b):
        if self._known_le(a, b):
            return a
        if self._known_le(b, a):
            return b
        return imin(a, b)

    def _kmax(self, a, b):
        if self._known_le(a, b):
            return b
        if self._known_le(b, a):
            return a
        return imax(a, b)

    def _known_le(self, x, y):
        if isinstance(x, int) and isinstance(y, int):
            return x <= y
        return self.path.known(_iv(x) <= _iv(y))

    def _subview(self, s: View, ra, rb):
        lo = ra if self._known_le(0, ra) else (0 if self._known_le(ra, 0) else imax(ra, 0))
        hi = rb if self._known_le(rb, s.n) else (s.n if self._known_le(s.n, rb) else imin(rb, s.n))
        ln = isub(hi, lo)
        if not self._known_le(0, ln):
            ln = imax(ln, 0)
        return View(s.base, iadd(s.off, lo), ln)

    # assignment ---------------------------------------------------------------------------------
    def assign(self, target, val, fr: Frame):
        if isinstance(target, ast.Name):
            self.log_write(("local", id(fr), target.id))
            fr.locals[target.id] = val
        elif isinstance(target, ast.Attribute):
            base = self.ev(target.value, fr)
            self.setattr_(base, target.attr, val)
        elif isinstance(target, ast.Subscript):
            self.setitem(target, val, fr)
        elif isinstance(target, (ast.Tuple, ast.List)):
            items = self.iterate(val)
            if len(items) != len(target.elts):
                self.raise_py("builtins.ValueError", "unpack length mismatch")
            for t, x in zip(target.elts, items):
                self.assign(t, x, fr)
        else:
            raise Unsupported(f"assignment target {type(target).__name__}")

    def setitem(self, target: ast.Subscript, val, fr):
        base = self.ev(target.value, fr)
        base = self.resolve(base)
        from .values import VAny as _VAny
        if isinstance(base, _VAny):
            # state with an unknown history stays unknown: the store is not tracked (recorded as an assumption by any_child)
            if not isinstance(target.slice, ast.Slice):
                self.ev(target.slice, fr)
            self.any_child(base, "setitem")
            return
        if isinstance(target.slice, ast.Slice):
            raise Unsupported("slice assignment")
        idx = self.resolve(self.ev(target.slice, fr))
        if isinstance(base, VBytes):
            if base.kind != "bytearray":
                self.raise_py("builtins.TypeError", "item assignment on immutable bytes")
            b8 = self.to_byte(val)
            k = self.norm_index(idx, base.length())
            if not isinstance(k, int):
                raise Unsupported("bytearray store at symbolic index")
            nb = self.bytes_store(base, k, b8)
            # re-bind the variable holding the bytearray (no aliasing; checked by the caller of pyvc)
            self.assign(target.value, nb, fr)
            return
        if isinstance(base, VRef):
            o = self.hobj(base)
            if o.kind == "dict":
                self.dict_set(base, idx, val)
                return
            if o.kind == "list" and isinstance(idx, VInt) and idx.c is not None:
                k = self.norm_index(idx, len(o.items))
                self.log_write(("cont", base.ref))
                o.items[k] = val
                return
            return self.B.sym_setitem(self, base, o, idx, val)
        raise Unsupported(f"item assignment on {base!r}")

    def to_byte(self, val):
        """value stored into a bytes object: ValueError outside 0..255; returns BV8 term or int"""
        val = self.resolve(val)
        if isinstance(val, VBool):
            val = ops._to_intlike(self, val)
        if not isinstance(val, VInt):
            self.raise_py("builtins.TypeError", "an integer is required")
        if val.c is not None:
            if not 0 <= val.c <= 255:
                self.raise_py("builtins.ValueError", "byte must be in range(0, 256)")
            return val.c
        if not (val.lo is not None and val.lo >= 0 and val.hi is not None and val.hi <= 255):
            bad = ops.VBool(t=z3.Or(ops.int_cmp("<", val, mkint(0)).term(), ops.int_cmp(">", val, mkint(255)).term()))
            if bad.c is True or (bad.c is None and self.path.branch(bad.t, "byterange")):
                self.raise_py("builtins.ValueError", "byte must be in range(0, 256)")
        if val.b is not None:
            return z3.simplify(z3.Extract(7, 0, val.b))
        return z3.Int2BV(val.as_int(), 8)

    def bytes_store(self, vb: VBytes, k: int, b8):
        out = []
        start = 0
        done = False
        for s in vb.segs:
            n = s.n() if isinstance(s, Lit) else s.n
            if not done and isinstance(start, int) and isinstance(n, int) and start <= k < start + n:
                if isinstance(s, Lit):
                    bs = list(s.bs)
                    bs[k - start] = b8
                    out.append(Lit(bs))
                else:
                    j = k - start
                    out.append(View(s.base, s.off, j))
                    out.append(Lit([b8]))
                    out.append(View(s.base, iadd(s.off, j + 1), n - j - 1))
                done = True
            else:
                out.append(s)
            start = iadd(start, n)
        if not done:
            raise Unsupported("bytearray store: position not concretely located")
        return VBytes(out, vb.kind)

    # ------------------------------------------------------------------------------------------
    # statements
    # ------------------------------------------------------------------------------------------
    def exec_block(self, stmts, fr):
        for s in stmts:
            self.exec_stmt(s, fr)

    def exec_stmt(self, node, fr):
        m = getattr(self, "st_" + type(node).__name__, None)
        if m is None:
            raise Unsupported(f"statement {type(node).__name__} at line {node.lineno}")
        if fr.func != "<spec>":
            self.cur_line = f"{fr.func}:{node.lineno}"
        return m(node, fr)

    def st_Expr(self, node, fr):
        if isinstance(node.value, ast.Constant):
            return
        self.ev(node.value, fr)

    def st_Pass(self, node, fr):
        pass

    def st_Assign(self, node, fr):
        try:
            v = self.ev(node.value, fr)
        except Unsupported as e:
            loop = getattr(node, "_pyvc_desugared", None)
            if loop is None or "needs a loop contract" not in str(e) or self.contracts is None or not isinstance(loop.iter, (ast.Name, ast.Attribute)):
                raise
            # xs = [e for t in it if c] over a list of symbolic length: executed as the loop it abbreviates, under that loop's contract
            tname = [n.id for n in ast.walk(loop.target) if isinstance(n, ast.Name)]
            saved = {n: fr.locals[n] for n in tname if n in fr.locals}
            tgt = node.targets[0]
            if isinstance(tgt, ast.Name) and isinstance(loop.iter, ast.Name) and tgt.id == loop.iter.id:
                # xs = [.. for t in xs ..]: the iterable is the OLD value of the name that receives the new list
                import copy as _copy
                fr.locals["__pyvc_comp_src"] = self.ev(loop.iter, fr)
                loop = _copy.copy(loop)
                loop.iter = ast.copy_location(ast.Name(id="__pyvc_comp_src", ctx=ast.Load()), loop.iter)
            self.assign(node.targets[0], self.new_list([]), fr)
            self.st_For(loop, fr)
            for n in tname:             # the comprehension's own variable does not leak
                if n in saved:
                    fr.locals[n] = saved[n]
                else:
                    fr.locals.pop(n, None)
            return
        for t in node.targets:
            self.assign(t, v, fr)

    def st_AnnAssign(self, node, fr):
        if node.value is not None:
            self.assign(node.target, self.ev(node.value, fr), fr)

    def st_AugAssign(self, node, fr):
        t = node.target
        if isinstance(t, ast.Name):
            cur = self.ev_Name(ast.Name(id=t.id, ctx=ast.Load(), lineno=node.lineno), fr)
            new = ops.binop(self, node.op, cur, self.ev(node.value, fr))
            self.assign(t, new, fr)
        elif isinstance(t, ast.Attribute):
            base = self.ev(t.value, fr)
            cur = self.getattr_(base, t.attr)
            new = ops.binop(self, node.op, cur, self.ev(node.value, fr))
            self.setattr_(base, t.attr, new)
        elif isinstance(t, ast.Subscript):
            base = self.ev(t.value, fr)
            idx = self.ev(t.slice, fr)
            cur = self.getitem(base, idx)
            new = ops.binop(self, node.op, cur, self.ev(node.value, fr))
            self.setitem(t, new, fr)
        else:
            raise Unsupported("augmented assignment target")

    def st_Return(self, node, fr):
        raise ReturnSig(self.ev(node.value, fr) if node.value is not None else NONE)

    def _only_logs(self, stmts):
        return all(isinstance(b, ast.Expr) and isinstance(b.value, ast.Call) and isinstance(b.value.func, ast.Attribute)
                   and isinstance(b.value.func.value, ast.Name) and b.value.func.value.id == "_LOGGER" for b in stmts)

    def _log_args_inert(self, stmts):
        """the logging calls of these statements have arguments whose evaluation cannot have effects (names, attributes, literals,
        subscripts, .hex() / len() / str()); anything else - e.g. command.tobytes() - has to be executed"""
        for b in stmts:
            for a in list(b.value.args) + [k.value for k in b.value.keywords]:
                for n in ast.walk(a):
                    if isinstance(n, ast.Call):
                        f = n.func
                        ok = (isinstance(f, ast.Attribute) and f.attr in ("hex", "isoformat", "total_seconds", "upper", "lower", "strip")) or \
                             (isinstance(f, ast.Name) and f.id in ("len", "str", "repr", "int", "hex", "type", "round"))
                        if not ok:
                            return False
                    if isinstance(n, (ast.Await, ast.NamedExpr, ast.Yield, ast.YieldFrom)):
                        return False
        return True

    def st_If(self, node, fr):
        if node.body and self._only_logs(node.body) and self._only_logs(node.orelse) and self._log_args_inert(list(node.body) + list(node.orelse)):
            # both arms only log (dropped): evaluate the test for its raise points, do not fork
            ops.truth(self, self.ev(node.test, fr))
            for b in list(node.body) + list(node.orelse):
                self.note_log_args(b.value, fr)
            return
        if (not node.orelse and len(node.body) == 1 and isinstance(node.body[0], ast.Expr) and isinstance(node.body[0].value, ast.Call)
                and isinstance(node.body[0].value.func, ast.Attribute) and node.body[0].value.func.attr in ("append", "add")
                and len(node.body[0].value.args) == 1 and not node.body[0].value.keywords
                and self.pure_expr(node.test) and self.pure_expr(node.body[0].value.args[0]) and self.pure_expr(node.body[0].value.func.value)):
            t = ops.truth(self, self.ev(node.test, fr))
            if t.c is None:
                call = node.body[0].value
                cont = self.resolve(self.ev(call.func.value, fr))
                if isinstance(cont, VRef) and self.hobj(cont).kind in ("list", "symset") and self.path.feasible(t.t):
                    try:
                        x = self._under(t.t, call.args[0], fr)
                    except _InfeasibleBranch:
                        return
                    o = self.hobj(cont)
                    self.log_write(("cont", cont.ref))
                    if o.kind == "list":
                        o.items.append(Guarded(t.t, x))
                    else:
                        self.B.symset_add(self, cont, o, x, cond=t.t)
                    return
        if (not node.orelse and len(node.body) == 1 and isinstance(node.body[0], ast.Assign) and len(node.body[0].targets) == 1
                and isinstance(node.body[0].targets[0], (ast.Attribute, ast.Name)) and self.pure_expr(node.body[0].value, fr)
                and (not isinstance(node.body[0].targets[0], ast.Attribute) or self.pure_expr(node.body[0].targets[0].value, fr))
                and not any(isinstance(n, (ast.Await, ast.Yield)) for n in ast.walk(node.test))):
            # `if c: x = e` with side-effect free e: merged into x = (e if c else x) instead of forking the path
            t = ops.truth(self, self.ev(node.test, fr))
            if t.c is None:
                tgt = node.body[0].targets[0]
                try:
                    old = self.ev(tgt, fr) if not isinstance(tgt, ast.Name) or tgt.id in fr.locals else None
                except PyRaise:
                    old = None
                if old is not None and self.path.feasible(t.t) and self.path.feasible(z3.Not(t.t)):
                    try:
                        new = self._under(t.t, node.body[0].value, fr)
                    except _InfeasibleBranch:
                        return
                    self.assign(tgt, ops.union_of([(t.t, new), (z3.Not(t.t), old)]), fr)
                    return
                if self.path.branch(t.t, f"if@{node.lineno}"):
                    self.exec_block(node.body, fr)
                return
            if t.c:
                self.exec_block(node.body, fr)
            return
        if self.cond(self.ev(node.test, fr), f"if@{node.lineno}"):
            self.exec_block(node.body, fr)
        else:
            self.exec_block(node.orelse, fr)

    def st_Assert(self, node, fr):
        if not self.cond(self.ev(node.test, fr), f"assert@{node.lineno}"):
            self.raise_py("builtins.AssertionError", "assert")

    def st_Raise(self, node, fr):
        if node.exc is None:
            if fr.cur_exc is None:
                self.raise_py("builtins.RuntimeError", "no active exception")
            raise PyRaise(fr.cur_exc)
        e = self.ev(node.exc, fr)
        if node.cause is not None:
            self.ev(node.cause, fr)
        e = self.resolve(e)
        if isinstance(e, ClassInfo):
            e = self.instantiate(e, [], {})
        if not (isinstance(e, VRef) and self.hobj(e).kind == "inst" and self.hobj(e).cls.is_exception):
            self.raise_py("builtins.TypeError", "exceptions must derive from BaseException")
        raise PyRaise(e)

    def st_Break(self, node, fr):
        raise BreakSig()

    def st_Continue(self, node, fr):
        raise ContinueSig()

    def st_FunctionDef(self, node, fr):
        fr.locals[node.name] = VFunc(node, fr.module, cls=fr.cls, closure=fr, qualname=f"{fr.func}.<locals>.{node.name}")

    st_AsyncFunctionDef = st_FunctionDef

    def st_Import(self, node, fr):
        for a in node.names:
            nm = a.name if a.asname else a.name.split(".")[0]
            fr.locals[a.asname or nm] = self.L.module(nm) if self.L.is_repo_module(nm) else ExtModule(nm)

    def st_ImportFrom(self, node, fr):
        src = self.L._resolve_relative(fr.module, node)
        for a in node.names:
            if self.L.is_repo_module(src):
                fr.locals[a.asname or a.name] = self.module_get(self.L.module(src), a.name)
            else:
                fr.locals[a.asname or a.name] = self.ext_attr(src, a.name)

    def st_Global(self, node, fr):
        raise Unsupported("global statement")

    def st_Delete(self, node, fr):
        raise Unsupported("del statement")

    def exc_matches(self, exc: VRef, handler_type, fr):
        if handler_type is None:
            return True
        t = self.ev(handler_type, fr)
        classes = t.items if isinstance(t, VTuple) else [t]
        cls = self.hobj(exc).cls
        for c in classes:
            if not isinstance(c, ClassInfo):
                raise Unsupported("except clause with a non-class")
            if cls.issub(c):
                return True
        return False

    def st_Try(self, node, fr):
        def body():
            try:
                self.exec_block(node.body, fr)
            except PyRaise as pr:
                for h in node.handlers:
                    if self.exc_matches(pr.exc, h.type, fr):
                        if h.name:
                            fr.locals[h.name] = pr.exc
                        saved = fr.cur_exc
                        fr.cur_exc = pr.exc
                        try:
                            self.exec_block(h.body, fr)
                        finally:
                            fr.cur_exc = saved
                        return
                raise
            else:
                self.exec_block(node.orelse, fr)
        if not node.finalbody:
            return body()
        try:
            body()
        except (PyRaise, ReturnSig, BreakSig, ContinueSig):
            self.exec_block(node.finalbody, fr)
            raise
        self.exec_block(node.finalbody, fr)

    def st_With(self, node, fr):
        for item in node.items:
            v = self.ev(item.context_expr, fr)
            v = self.B.enter_context(self, v, is_async=isinstance(node, ast.AsyncWith))
            if item.optional_vars is not None:
                self.assign(item.optional_vars, v, fr)
        self.exec_block(node.body, fr)

    st_AsyncWith = st_With

    def loop_ordinal(self, node, fr):
        return getattr(node, "_pyvc_ord", None)

    def st_While(self, node, fr):
        lc = self.contracts.loop_contract(self, fr, node) if self.contracts is not None else None
        if lc is not None:
            return self.contracts.run_loop(self, lc, node, fr)
        n = 0
        while True:
            if not self.cond(self.ev(node.test, fr), f"while@{node.lineno}"):
                self.exec_block(node.orelse, fr)
                return
            n += 1
            if n > 64:
                raise Unsupported(f"while loop at line {node.lineno} needs a loop contract")
            try:
                self.exec_block(node.body, fr)
            except BreakSig:
                return
            except ContinueSig:
                continue

    def st_For(self, node, fr):
        it = self.ev(node.iter, fr)
        if all(isinstance(b, ast.Expr) and isinstance(b.value, ast.Call) and isinstance(b.value.func, ast.Attribute)
               and isinstance(b.value.func.value, ast.Name) and b.value.func.value.id == "_LOGGER" for b in node.body) and not node.orelse:
            for b in node.body:
                self.note_log_args(b.value, fr)
            return      # the body only logs (dropped): the loop has no effect
        if isinstance(node, ast.AsyncFor):
            it = self.await_(it)
        try:
            items = self.iterate(it, node=node)
        except Unsupported:
            r = self.resolve(it)
            if isinstance(r, VRef) and self.hobj(r).kind == "symlist":
                n = self.hobj(r).meta["len"]
                if n.c == 0 or (n.c is None and self.path.known(n.as_int() <= 0)):
                    self.exec_block(node.orelse, fr)
                    return
            lc = self.contracts.loop_contract(self, fr, node) if self.contracts is not None else None
            if lc is None:
                if isinstance(r, VRef) and self.hobj(r).kind == "symlist" and not isinstance(node, ast.AsyncFor):
                    return self.effect_free_loop(node, fr, r)
                raise
            return self.contracts.run_loop(self, lc, node, fr, it)
        for x in items:
            self.assign(node.target, x, fr)
            try:
                self.exec_block(node.body, fr)
            except BreakSig:
                return
            except ContinueSig:
                continue
        self.exec_block(node.orelse, fr)

    st_AsyncFor = st_For

    def effect_free_loop(self, node, fr, lst):
        """`for x in xs:` over a list of symbolic length WITHOUT a loop contract, for bodies that change nothing but locals
        (search loops: `if p(x): return x` / `break`).  Sound over-approximation: either the loop runs to completion - then nothing
        but the locals the body assigns has changed (they are unknown afterwards), or some iteration, on an arbitrary element,
        leaves it by return / raise / break.  A body path that completes normally after writing anything else makes the function
        undecided (every path of the arbitrary iteration is explored, so such a path is always found)."""
        from . import symlist
        from .contracts import VPoison
        o = self.hobj(lst)
        n0 = o.meta["len"]
        # lists of at most two elements are iterated exactly (so a refutation found there is a real behaviour of the code)
        for k in range(0, 3):
            if n0.c == k or (n0.c is None and self.path.branch(n0.as_int() == k, "short_list")):
                for j in range(k):
                    self.assign(node.target, symlist.getitem(self, lst, o, mkint(j)), fr)
                    try:
                        self.exec_block(node.body, fr)
                    except BreakSig:
                        return
                    except ContinueSig:
                        continue
                self.exec_block(node.orelse, fr)
                return
        assigned = set()
        for b in node.body + [ast.Expr(value=node.target)]:
            for n in ast.walk(b):
                if isinstance(n, ast.Name) and isinstance(n.ctx, ast.Store):
                    assigned.add(n.id)
                elif isinstance(n, ast.NamedExpr) and isinstance(n.target, ast.Name):
                    assigned.add(n.target.id)
        for n in ast.walk(node.target):
            if isinstance(n, ast.Name):
                assigned.add(n.id)
        n = o.meta["len"]
        nt = n.as_int() if n.c is None else n.c

        def poison():
            for nm in assigned:
                if nm in fr.locals:
                    fr.locals[nm] = VPoison(nm)

        def completes(idx_term, lo, hi_excl):
            """the body, run on an arbitrary element with lo <= index < hi_excl, completes normally and changes nothing but locals
            (a necessary condition for the iterations before the one that leaves the loop / for all iterations of a completed loop)"""
            self.path.assume(z3.And(idx_term >= lo, idx_term < hi_excl))
            self.assign(node.target, symlist.getitem(self, lst, o, VInt(i=idx_term, lo=0, hi=MAXLEN)), fr)
            saved = self.write_log
            self.write_log = []
            try:
                try:
                    self.exec_block(node.body, fr)
                except ContinueSig:
                    pass
            except (BreakSig, ReturnSig, PyRaise):
                self.write_log = saved
                raise PathEnd("this iteration would have left the loop")
            except BaseException:
                self.write_log = saved
                raise
            log, self.write_log = self.write_log, saved
            bad = [w for w in log if w[0] != "local"]
            if bad:
                raise Unsupported(f"loop over a symbolic list at line {node.lineno} changes state ({bad[0][0]}) and has no loop contract")

        MARK = f"loop over a symbolic list at line {node.lineno} without a loop contract (abstracted: the iterations before the one that leaves the loop are represented by one arbitrary witness)"
        k = self.path.choose(3, "effect_free_loop")
        if k == 0:
            # the first element already leaves the loop: exact
            self.assign(node.target, symlist.getitem(self, lst, o, mkint(0)), fr)
            try:
                self.exec_block(node.body, fr)
            except BreakSig:
                return
            except ContinueSig:
                pass
            raise PathEnd("first iteration completed normally (covered by the other branches)")
        if k == 1:
            # the loop runs to completion: every iteration completed normally, in particular an arbitrary one
            self.path.ghost["overapprox"] = MARK
            completes(z3.Int(fresh("iter_w")), 0, nt)
            poison()
            self.exec_block(node.orelse, fr)
            return
        # some iteration i >= 1 leaves the loop; an arbitrary earlier one completed normally
        self.path.ghost["overapprox"] = MARK
        i = z3.Int(fresh("iter"))
        self.path.assume(z3.And(i >= 1, i < nt))
        completes(z3.Int(fresh("iter_w")), 0, i)
        poison()
        self.assign(node.target, symlist.getitem(self, lst, o, VInt(i=i, lo=0, hi=MAXLEN)), fr)
        try:
            self.exec_block(node.body, fr)
        except BreakSig:
            return
        except ContinueSig:
            pass
        raise PathEnd("end of arbitrary iteration (effect-free loop)")


class _GuardFrame:
    def __init__(self, frame, cond):
        self.frame, self.cond = frame, cond


class _ClassNS(dict):
    """name space of a class body (for evaluating class level expressions and defaults)"""

    def __init__(self, I, cls):
        super().__init__()
        self.I, self.cls = I, cls

    def __contains__(self, k):
        c = self.cls
        while c is not None:
            if k in c.assigns or k in c.methods or k in c.inner:
                return True
            c = c.outer
        return False

    def __getitem__(self, k):
        c = self.cls
        while c is not None:
            if k in c.assigns or k in c.methods or k in c.inner:
                return self.I.class_attr(c, k)
            c = c.outer
        raise KeyError(k)

    def get(self, k, d=None):
        return self[k] if k in self else d
