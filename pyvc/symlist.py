"""Lists of symbolic length whose elements are produced on demand (abstract references, DESIGN A.1).

meta: len (VInt), elem_type (str), elems {index key -> V}, cs (ContractSet), name
An `opaque` list (elem_type == "opaque") only supports len() and `in` (an uninterpreted predicate).
"""
from __future__ import annotations

import z3

from . import builtins as B
from . import ops
from .values import (tid, MAXLEN, HObj, Unsupported, VBool, VInt, VRef, fresh, mkint, _iv)


def make(I, cs, elem_type, name, length=None):
    if length is None:
        n = z3.Int(fresh(name + "_len"))
        I.path.assume(z3.And(n >= 0, n <= MAXLEN))
        length = VInt(i=n, lo=0, hi=MAXLEN)
    o = HObj("symlist", items=[], meta={"len": length, "elem_type": elem_type, "elems": {}, "cs": cs, "name": name, "appended": []})
    return VRef(I.path.alloc(o))


def elem(I, ref, o, idx: VInt):
    """element at a (normalised, in range) index"""
    key = idx.c if idx.c is not None else ("t", tid(idx.as_int()))
    e = o.meta["elems"].get(key)
    if e is None and o.meta["elems"]:
        # the same position under another name: an index that provably equals the index of a known element denotes that element
        for k2, (e2, idx2) in list(o.meta["elems"].items()):
            if idx.c is not None and idx2.c is not None:
                continue
            if I.path.known(idx.as_int() == idx2.as_int()):
                e = (e2, idx2)
                o.meta["elems"][key] = e
                break
    if e is None and o.meta["elem_type"] == "concat":
        for (start, n, p) in o.meta["segs"]:
            rel = ops._arith(I, "-", idx, start)
            inside = ops.int_cmp("<", rel, n)
            if inside.c is True or (inside.c is None and I.path.branch(inside.term(), "catseg")):
                po = I.hobj(p)
                if po.kind == "list":
                    return I.getitem(p, rel)
                return elem(I, p, po, rel)
        raise Unsupported("concat list index beyond all segments")
    if e is None and o.meta["elem_type"] in ("dictitems", "setitems"):
        # the i-th item of a finite-universe dict / set: some present key (and its value)
        cands = o.meta["cands"]          # [(key V, present Bool, value V | None)]
        kt = z3.Int(fresh(o.meta["name"] + "_key"))
        en = cands[0][0].enum if cands and isinstance(cands[0][0], VInt) else None
        if not all(isinstance(k, VInt) and k.c is not None for k, _, _ in cands):
            raise Unsupported("items() of a symbolic dict with non-integer keys")
        I.path.assume(z3.Or([z3.And(p, kt == k.c) for k, p, _ in cands]) if cands else z3.BoolVal(False))
        key_v = VInt(i=kt, lo=min(k.c for k, _, _ in cands), hi=max(k.c for k, _, _ in cands), enum=en)
        if o.meta["elem_type"] == "setitems":
            val = key_v
        else:
            from .values import VTuple
            val = VTuple([key_v, ops.union_of([(kt == k.c, v) for k, p, v in cands])])
        e = (val, idx)
        o.meta["elems"][key] = e
        I.path.assumption("dict.items() / set iteration over a finite-universe container: each item is a present key (with its value); "
                          "distinctness and coverage of the enumeration are not used")
    if e is None and o.meta.get("elem_factory") is not None:
        e = (o.meta["elem_factory"](idx), idx)
        o.meta["elems"][key] = e
    if e is None:
        if o.meta["elem_type"] == "opaque":
            raise Unsupported("element access on an opaque list")
        nm = f"{o.meta['name']}[{idx.c if idx.c is not None else 'i'}]"
        e = (o.meta["cs"].make(I, o.meta["elem_type"], nm), idx)
        o.meta["elems"][key] = e
    return e[0]


def items_view(I, ref, o):
    """symbolic list view of the items of a symdict / the members of a symset"""
    if o.kind == "symdict":
        cands = [(k, p, v) for (k, p, v) in o.items if I.path.feasible(p)]
        kind = "dictitems"
    else:
        cands = [(k, p, None) for k, p in zip(o.items, o.meta["mem"]) if I.path.feasible(p)]
        kind = "setitems"
    n = B.sym_len(I, ref, o)
    lo = HObj("symlist", items=[], meta={"len": n, "elem_type": kind, "elems": {}, "cs": None, "name": kind, "cands": cands})
    return VRef(I.path.alloc(lo))


def getitem(I, ref, o, idx):
    idx = I.resolve(idx)
    if not isinstance(idx, VInt):
        I.raise_py("builtins.TypeError", "list indices must be integers")
    n = o.meta["len"]
    k = I.norm_index(idx, n.c if n.c is not None else n.as_int())
    return elem(I, ref, o, mkint(k) if isinstance(k, int) else VInt(i=k, lo=0, hi=MAXLEN))


def getslice(I, ref, o, lo, hi):
    raise Unsupported("slice of a symbolic list")


def method(I, ref, o, name, args, kw):
    if name == "append":
        I.log_write(("cont", ref.ref))
        n = o.meta["len"]
        key = n.c if n.c is not None else ("t", tid(n.as_int()))
        o.meta["elems"] = dict(o.meta["elems"])
        o.meta["elems"][key] = (args[0], n)
        o.meta["len"] = ops._arith(I, "+", n, mkint(1))
        return B.NONE
    if name == "extend":
        I.log_write(("cont", ref.ref))
        a0 = I.resolve(args[0])
        if not isinstance(a0, VRef) or I.hobj(a0).kind not in ("list", "symlist"):
            a0 = I.new_list(I.iterate(a0))
        if o.meta["elem_type"] != "concat":
            old = VRef(I.path.alloc(HObj("symlist", items=[], meta=o.meta)))
            cat = I.hobj(concat_lists(I, [old, a0], name="extended"))
            o.meta = cat.meta
            return B.NONE
        ao = I.hobj(a0)
        n = mkint(len(ao.items)) if ao.kind == "list" else ao.meta["len"]
        o.meta = dict(o.meta)
        o.meta["segs"] = list(o.meta["segs"]) + [(o.meta["len"], n, a0)]
        o.meta["len"] = ops._arith(I, "+", o.meta["len"], n)
        return B.NONE
    raise Unsupported(f"symbolic list method {name}")


def concat_lists(I, parts, name="cat"):
    """concatenation of concrete / symbolic lists as one symbolic list (elements located by case split)"""
    total = mkint(0)
    segs = []
    for p in parts:
        o = I.hobj(p)
        n = mkint(len(o.items)) if o.kind == "list" else o.meta["len"]
        segs.append((total, n, p))
        total = ops._arith(I, "+", total, n)
    ref = VRef(I.path.alloc(HObj("symlist", items=[], meta={"len": total, "elem_type": "concat", "elems": {}, "cs": None, "name": name, "segs": segs})))
    return ref


def contains(I, ref, o, x):
    return B.opaque_bool(I, "in_" + o.meta["name"], [x])


def concretize(I, m, v, o, heap, depth, conc):
    n = m.eval(o.meta["len"].as_int(), model_completion=True).as_long() if o.meta["len"].c is None else o.meta["len"].c
    items = []
    if o.meta["elem_type"] == "opaque":
        return {"t": "list", "items": []}
    known = {}
    for key, (e, idx) in o.meta["elems"].items():
        k = idx.c if idx.c is not None else m.eval(idx.as_int(), model_completion=True).as_long()
        known[k] = e
    for k in range(min(n, 64)):
        if k in known:
            items.append(conc(I, m, known[k], heap, depth + 1))
        else:
            items.append(conc(I, m, o.meta["cs"].make(I, o.meta["elem_type"], "filler"), heap, depth + 1))
    return {"t": "list", "items": items}
