"""Contract DSL used by the sidecar files under /verif/contracts.

The sidecar files are ordinary Python modules: pyvc parses them with `ast` (contracts are literal
data, clauses are Python expression strings, spec functions are plain `def`s that pyvc executes
symbolically), and the replay harness imports them natively so that every clause also has an
executable meaning on the real code.
"""
from __future__ import annotations

import functools

REGISTRY = {"contracts": {}, "fields": {}, "lemmas": {}}


def contract(target, **kw):
    REGISTRY["contracts"][target] = kw


def fields(cls, **kw):
    REGISTRY["fields"].setdefault(cls, {}).update(kw)


def opaque(name, **kw):
    REGISTRY.setdefault("opaque", {})[name] = kw


def lemma(name, **kw):
    REGISTRY["lemmas"][name] = kw


# ---- spec builtins (native meaning) -------------------------------------------------------------

def fold(f, init, seq, name=None):
    return functools.reduce(f, seq, init)


def implies(a, b):
    return (not a) or b


def old(x):       # only meaningful inside pyvc / the replay harness (which pre-evaluates old())
    return x


def pre(x):       # start-of-iteration value inside loop step clauses (pyvc only)
    return x


def events(name):     # ghost trace of contract-level events (pyvc only)
    return []


def same_object(a, b):
    return a is b


def final(name):      # value of a local of the verified function at return (pyvc only)
    raise NotImplementedError


# ---- cryptographic primitives (native meaning; uninterpreted with algebraic laws inside pyvc) -----------------------

def md5(data):
    import hashlib
    return hashlib.md5(bytes(data)).digest()


def sha256(data):
    import hashlib
    return hashlib.sha256(bytes(data)).digest()


def _aes(key, mode):
    from Crypto.Cipher import AES
    return AES.new(bytes(key), AES.MODE_ECB) if mode == "ecb" else AES.new(bytes(key), AES.MODE_CBC, iv=bytes(16))


def aes_ecb_enc(key, data):
    return _aes(key, "ecb").encrypt(bytes(data))


def aes_ecb_dec(key, data):
    return _aes(key, "ecb").decrypt(bytes(data))


def aes_cbc_enc(key, data):
    return _aes(key, "cbc").encrypt(bytes(data))


def aes_cbc_dec(key, data):
    return _aes(key, "cbc").decrypt(bytes(data))


def pkcs7(data):
    p = 16 - len(data) % 16
    return bytes(data) + bytes([p]) * p


def xor_bytes(a, b):
    return bytes(x ^ y for x, y in zip(a, b))


def byte_at(s, j):
    return s[j] if 0 <= j < len(s) else 0


def forall(lo, hi, fn):
    return all(fn(j) for j in range(lo, hi))


def maybe(x):
    return [x]


def is_xml(data):
    import xml.etree.ElementTree as ET
    try:
        ET.fromstring(bytes(data))
        return True
    except ET.ParseError:
        return False


def has_own(obj, name):
    return name in vars(obj)


def pending_getters(q):
    """consumers still registered on an asyncio.Queue (a Queue.get() that was started and neither finished nor cancelled)"""
    return len([g for g in getattr(q, "_getters", ()) if not g.done()])


def hexbytes(s):
    """bytes.fromhex(s), total at specification level"""
    try:
        return bytes.fromhex(s)
    except ValueError:
        return b""


def conforms(obj):
    """the object's attributes have the types the sidecar declares for its class (checked by pyvc only)"""
    return True
