"""Value model of pyvc: Python values with symbolic (z3) leaves.

Integers are mathematical.  A VInt carries a concrete python int, or a 64-bit bit-vector term
and/or an SMT Int term (kept in step), together with a conservative interval [lo, hi] that is used
to prove that the bit-vector term cannot overflow (so it equals the mathematical value).
Byte strings are sequences of segments: literal bytes or views (array, offset, length).
"""
from __future__ import annotations

import z3

W = 64
MAXLEN = 1 << 40          # assumption: no byte string / list is longer than this
BIG = 1 << 62

BV8 = z3.BitVecSort(8)
INT = z3.IntSort()
ARR = z3.ArraySort(INT, BV8)


class Unsupported(Exception):
    """Construct outside the supported subset -> obligations of the function are undecided."""


_cnt = [0]


def reset_fresh():
    _cnt[0] = 0


def fresh(prefix: str) -> str:
    _cnt[0] += 1
    return f"{prefix}!{_cnt[0]}"


_KEEP = {}


def tid(t):
    """id of the simplified term; the term is kept alive so that the id is never reused"""
    t = z3.simplify(t)
    i = t.get_id()
    if i not in _KEEP:
        _KEEP[i] = t
    return i


def simp(t):
    return z3.simplify(t)


def as_const(t):
    """python int if the z3 term simplifies to a numeral, else None"""
    if isinstance(t, int):
        return t
    t = z3.simplify(t)
    if z3.is_int_value(t):
        return t.as_long()
    if z3.is_bv_value(t):
        return t.as_signed_long()
    return None


class V:
    pass


class VNone(V):
    def __repr__(self):
        return "None"


NONE = VNone()


class VBool(V):
    __slots__ = ("c", "t")

    def __init__(self, c=None, t=None):
        if t is not None and c is None:
            s = z3.simplify(t)
            if z3.is_true(s):
                c, t = True, None
            elif z3.is_false(s):
                c, t = False, None
            else:
                t = s
        self.c, self.t = c, t

    def term(self):
        return z3.BoolVal(self.c) if self.c is not None else self.t

    def __repr__(self):
        return f"VBool({self.c if self.c is not None else self.t})"


TRUE, FALSE = VBool(True), VBool(False)


def mkbool(x):
    if isinstance(x, bool):
        return TRUE if x else FALSE
    return VBool(t=x)


class VInt(V):
    __slots__ = ("c", "b", "i", "lo", "hi", "enum", "lz")

    def __init__(self, c=None, b=None, i=None, lo=None, hi=None, enum=None, lz=0):
        self.lz = lz        # number of low bits known to be zero (for Int-kind values produced by <<)
        if c is None:
            # try to fold
            src = b if b is not None else i
            k = as_const(src) if src is not None else None
            if k is not None:
                c, b, i = k, None, None
        if c is not None:
            lo = hi = c
        self.c, self.b, self.i, self.lo, self.hi, self.enum = c, b, i, lo, hi, enum

    def __repr__(self):
        if self.c is not None:
            return f"VInt({self.c})"
        return f"VInt({self.b if self.b is not None else self.i} in [{self.lo},{self.hi}])"

    # --- conversions -----------------------------------------------------------------------
    def as_int(self):
        if self.c is not None:
            return z3.IntVal(self.c)
        if self.i is None:
            if self.lo is not None and self.lo >= 0 and self.hi is not None and self.hi < (1 << 63):
                k = max(1, self.hi.bit_length())
                self.i = z3.BV2Int(z3.Extract(k - 1, 0, self.b), False)
            else:
                self.i = z3.BV2Int(self.b, True)
        return self.i

    def fits_bv(self):
        return self.lo is not None and self.hi is not None and -BIG <= self.lo and self.hi <= BIG

    def as_bv(self):
        if self.c is not None:
            if not -(1 << 63) <= self.c < (1 << 63):
                raise Unsupported("constant outside 64 bit")
            return z3.BitVecVal(self.c, W)
        if self.b is None:
            # Int2BV is the value modulo 2^64; callers make sure that is what they need
            self.b = int2bv(self.i)
        return self.b

    def bounded(self):
        return self.lo is not None and self.hi is not None


def int2bv(t):
    """Int2BV(t, 64) with the conversion pushed to the leaves (ring homomorphism modulo 2^64)"""
    if z3.is_int_value(t):
        return z3.BitVecVal(t.as_long(), W)
    k = t.decl().kind() if z3.is_app(t) else None
    if k == z3.Z3_OP_ADD:
        r = int2bv(t.arg(0))
        for j in range(1, t.num_args()):
            r = r + int2bv(t.arg(j))
        return r
    if k == z3.Z3_OP_SUB:
        r = int2bv(t.arg(0))
        for j in range(1, t.num_args()):
            r = r - int2bv(t.arg(j))
        return r
    if k == z3.Z3_OP_MUL:
        r = int2bv(t.arg(0))
        for j in range(1, t.num_args()):
            r = r * int2bv(t.arg(j))
        return r
    if k == z3.Z3_OP_UMINUS:
        return -int2bv(t.arg(0))
    if k == z3.Z3_OP_ITE:
        return z3.If(t.arg(0), int2bv(t.arg(1)), int2bv(t.arg(2)))
    if k == z3.Z3_OP_BV2INT:
        a = t.arg(0)
        return z3.ZeroExt(W - a.size(), a) if a.size() < W else a
    return z3.Int2BV(t, W)


def mkint(c):
    return VInt(c=int(c))


def byte_val(b8):
    """VInt from a BV8 term (or python int)"""
    if isinstance(b8, int):
        return VInt(c=b8)
    k = as_const(b8)
    if k is not None:
        return VInt(c=k & 0xFF)
    return VInt(b=z3.ZeroExt(W - 8, b8), i=z3.BV2Int(b8, False), lo=0, hi=255)


def int_from_term(i, lo=None, hi=None):
    return VInt(i=i, lo=lo, hi=hi)


class VFloat(V):
    """Python float treated as an exact real (assumption recorded by the checker)."""
    __slots__ = ("c", "t")

    def __init__(self, c=None, t=None):
        self.c, self.t = c, t

    def term(self):
        if self.c is not None:
            from fractions import Fraction
            # decimal reading of the literal (0.1 is 1/10): float-as-rational assumption
            fr = Fraction(repr(self.c))
            return z3.RealVal(f"{fr.numerator}/{fr.denominator}")
        return self.t

    def __repr__(self):
        return f"VFloat({self.c if self.c is not None else self.t})"


STR = z3.DeclareSort("PyStr")


class VStr(V):
    """str: concrete, or opaque symbolic constant of an uninterpreted sort"""
    __slots__ = ("c", "t")

    def __init__(self, c=None, t=None):
        self.c, self.t = c, t

    def term(self):
        if self.t is None:
            self.t = z3.Const("str:" + repr(self.c), STR)
        return self.t

    def __repr__(self):
        return f"VStr({self.c!r})" if self.c is not None else f"VStr<{self.t}>"


class VAny(V):
    """a value about which nothing is known (undeclared mutable class state at function entry)"""
    __slots__ = ("name", "t")

    def __init__(self, name):
        self.name = name
        self.t = z3.Const(fresh("any_" + name), STR)

    def __repr__(self):
        return f"VAny({self.name})"


class VTuple(V):
    __slots__ = ("items",)

    def __init__(self, items):
        self.items = list(items)

    def __repr__(self):
        return f"VTuple{self.items}"


class Guarded(V):
    """list element / iteration item that is present only when cond holds"""
    __slots__ = ("cond", "val")

    def __init__(self, cond, val):
        self.cond, self.val = cond, val

    def __repr__(self):
        return f"Guarded({self.cond}, {self.val})"


class VRef(V):
    """reference to a heap object (list, dict, set, instance)"""
    __slots__ = ("ref",)

    def __init__(self, ref):
        self.ref = ref

    def __repr__(self):
        return f"VRef({self.ref})"


class VUnion(V):
    """guarded alternatives: [(cond BoolRef, V)], conditions mutually exclusive and exhaustive"""
    __slots__ = ("alts",)

    def __init__(self, alts):
        self.alts = alts

    def __repr__(self):
        return f"VUnion({[(str(c), v) for c, v in self.alts]})"


# ------------------------------------------------------------------------------------------------
# byte strings
# ------------------------------------------------------------------------------------------------

class Lit:
    __slots__ = ("bs",)

    def __init__(self, bs):
        self.bs = list(bs)      # python ints or BV8 terms

    def n(self):
        return len(self.bs)


class View:
    __slots__ = ("base", "off", "n", "origin")

    def __init__(self, base, off, n, origin=None):
        self.base, self.off, self.n, self.origin = base, off, n, origin


def _b8(x):
    return z3.BitVecVal(x, 8) if isinstance(x, int) else x


def iadd(a, b):
    if isinstance(a, int) and isinstance(b, int):
        return a + b
    r = z3.simplify(_iv(a) + _iv(b))
    k = as_const(r)
    return k if k is not None else r


def isub(a, b):
    if isinstance(a, int) and isinstance(b, int):
        return a - b
    r = z3.simplify(_iv(a) - _iv(b))
    k = as_const(r)
    return k if k is not None else r


def _iv(a):
    return z3.IntVal(a) if isinstance(a, int) else a


class VBytes(V):
    __slots__ = ("segs", "kind")

    def __init__(self, segs, kind="bytes"):
        out = []
        for s in segs:
            if isinstance(s, Lit):
                if not s.bs:
                    continue
                if out and isinstance(out[-1], Lit):
                    out[-1] = Lit(out[-1].bs + s.bs)
                else:
                    out.append(s)
            else:
                if isinstance(s.n, int):
                    if s.n <= 0:
                        continue
                else:
                    k = as_const(s.n)
                    if k is not None:
                        if k <= 0:
                            continue
                        s = View(s.base, s.off, k, s.origin)
                if out and isinstance(out[-1], View) and out[-1].base is s.base and out[-1].origin is None and s.origin is None:
                    p = out[-1]
                    if as_const(isub(iadd(p.off, p.n), s.off)) == 0:
                        out[-1] = View(p.base, p.off, iadd(p.n, s.n))      # contiguous views of the same array
                        continue
                out.append(s)
        self.segs = tuple(out)
        self.kind = kind

    @staticmethod
    def lit(bs, kind="bytes"):
        return VBytes([Lit(list(bs))], kind)

    def with_kind(self, kind):
        return VBytes(self.segs, kind)

    def length(self):
        n = 0
        for s in self.segs:
            n = iadd(n, s.n() if isinstance(s, Lit) else s.n)
        return n

    def conc_len(self):
        n = self.length()
        return n if isinstance(n, int) else None

    def is_concrete(self):
        return all(isinstance(s, Lit) and all(isinstance(b, int) for b in s.bs) for s in self.segs)

    def concrete(self):
        return bytes(b for s in self.segs for b in s.bs)

    def at(self, idx):
        """BV8 term of the element at Int index idx (python int or z3 Int); idx assumed in range"""
        start = 0
        pieces = []
        for s in self.segs:
            n = s.n() if isinstance(s, Lit) else s.n
            end = iadd(start, n)
            pieces.append((start, end, s))
            start = end
        if isinstance(idx, int):
            for (a, e, s) in pieces:
                if isinstance(a, int) and isinstance(e, int):
                    if a <= idx < e:
                        return self._seg_at(s, idx - a)
                    continue
                break
        res = None
        for (a, e, s) in reversed(pieces):
            v = self._seg_at(s, isub(idx, a))
            if res is None:
                res = v
            else:
                res = z3.If(_iv(idx) < _iv(e), v, res)
        if res is None:
            return z3.BitVecVal(0, 8)
        return res

    @staticmethod
    def _seg_at(s, j):
        if isinstance(s, Lit):
            if isinstance(j, int):
                return _b8(s.bs[j])
            k = as_const(j)
            if k is not None:
                return _b8(s.bs[k])
            res = _b8(s.bs[-1])
            for q in range(len(s.bs) - 2, -1, -1):
                res = z3.If(j == q, _b8(s.bs[q]), res)
            return res
        return z3.Select(s.base, _iv(iadd(s.off, j)))

    def key(self):
        """structural key (used to memoise opaque functions of byte strings)"""
        out = []
        for s in self.segs:
            if isinstance(s, Lit):
                out.append(("L",) + tuple(b if isinstance(b, int) else ("t", tid(b)) for b in s.bs))
            else:
                _KEEP.setdefault(s.base.get_id(), s.base)
                out.append(("V", s.base.get_id(),
                            s.off if isinstance(s.off, int) else tid(s.off),
                            s.n if isinstance(s.n, int) else tid(s.n)))
        return tuple(out)

    def __repr__(self):
        parts = []
        for s in self.segs:
            if isinstance(s, Lit):
                parts.append("L[" + ",".join(f"{b:02x}" if isinstance(b, int) else "?" for b in s.bs[:12]) + ("…" if len(s.bs) > 12 else "") + "]")
            else:
                parts.append(f"V({s.base},{s.off},{s.n})")
        return f"VBytes<{self.kind}>(" + " ++ ".join(parts) + ")"


def concat(a: VBytes, b: VBytes, kind=None) -> VBytes:
    return VBytes(list(a.segs) + list(b.segs), kind or a.kind)


def imax(a, b):
    if isinstance(a, int) and isinstance(b, int):
        return max(a, b)
    r = z3.simplify(z3.If(_iv(a) >= _iv(b), _iv(a), _iv(b)))
    k = as_const(r)
    return k if k is not None else r


def imin(a, b):
    if isinstance(a, int) and isinstance(b, int):
        return min(a, b)
    r = z3.simplify(z3.If(_iv(a) <= _iv(b), _iv(a), _iv(b)))
    k = as_const(r)
    return k if k is not None else r


class HObj:
    """heap record"""
    __slots__ = ("kind", "cls", "fields", "items", "meta")

    def __init__(self, kind, cls=None, fields=None, items=None, meta=None):
        self.kind = kind          # 'inst' | 'list' | 'dict' | 'set' | 'symlist' | 'symset'
        self.cls = cls
        self.fields = fields if fields is not None else {}
        self.items = items
        self.meta = meta if meta is not None else {}
