"""Command line driver: verify contracts, discharge obligations, write evidence."""
from __future__ import annotations

import argparse
import json
import os
import sys
import time
import traceback

import z3

from . import path as pathmod
from .contracts import ContractSet
from .interp import Interp
from .loader import Loader
from .path import Explorer, discharge
from .values import Unsupported

HERE = os.path.dirname(os.path.dirname(os.path.abspath(__file__)))


class FuncResult:
    def __init__(self, target):
        self.target = target
        self.obligations = []       # Obligation objects (discharged)
        self.paths = 0
        self.outcomes = {}
        self.undecided = None
        self.assumptions = set()
        self.secs = 0.0
        self.stats = {}


def verify_target(target, timeout_ms=20000, verbose=False, repo=None):
    t0 = time.time()
    L = Loader(repo) if repo else Loader()
    cs = ContractSet(L, os.path.join(HERE, "contracts"))
    c = cs.contracts.get(target) or cs.lemmas.get(target)
    res = FuncResult(target)
    if c is None:
        res.undecided = f"no contract for {target}"
        return res
    I = Interp(L, cs)
    I.spec_builtins = {"fold", "implies", "old", "pre", "events", "same_object", "final", "byte_at", "forall", "maybe", "has_own", "pending_getters", "hexbytes", "conforms", "is_xml", "md5", "sha256", "aes_ecb_enc", "aes_ecb_dec", "aes_cbc_enc", "aes_cbc_dec", "pkcs7", "xor_bytes"}
    ex = Explorer()
    try:
        paths = ex.run(lambda p: cs.verify_path(I, c, p))
    except Unsupported as e:
        res.undecided = f"unsupported: {e}"
        if verbose:
            traceback.print_exc()
        res.secs = time.time() - t0
        return res
    res.paths = len(paths)
    res.stats = dict(ex.stats)
    for p in paths:
        oc = p.ghost.get("outcome", "cut")
        res.outcomes[oc] = res.outcomes.get(oc, 0) + 1
        res.assumptions |= p.assumptions
        for ob in p.obligations:
            discharge(ob, timeout_ms)
            res.obligations.append(ob)
    dead = sorted(k for k, (n, ok) in ex.stats.get("callret", {}).items() if n > 0 and ok == 0)
    if dead:
        res.undecided = "VACUOUS call sites: normal return infeasible at every call site of " + ", ".join(dead)
    if ex.unsupported:
        res.undecided = f"unsupported on {res.outcomes.get('unsupported', 0)} path(s): {ex.unsupported[0]}"
    res.secs = time.time() - t0
    return res


def summarize(res: FuncResult, verbose=False):
    agg = {}
    for ob in res.obligations:
        a = agg.setdefault(ob.name, {"n": 0, "proved": 0, "refuted": 0, "unknown": 0, "secs": 0.0, "clause": ob.info.get("clause")})
        a["n"] += 1
        a[ob.status] += 1
        a["secs"] += ob.secs
    return agg


def main(argv=None):
    ap = argparse.ArgumentParser()
    ap.add_argument("targets", nargs="+")
    ap.add_argument("-v", action="store_true")
    ap.add_argument("-q", action="store_true")
    ap.add_argument("--timeout", type=int, default=20000)
    a = ap.parse_args(argv)
    rc = 0
    for t in a.targets:
        r = verify_target(t, a.timeout, a.v)
        print(f"== {t}: paths={r.paths} outcomes={r.outcomes} secs={r.secs:.2f} stats={r.stats}")
        if r.undecided:
            print("   UNDECIDED:", r.undecided)
            rc = max(rc, 2)
        summ = summarize(r)
        if a.q:
            print(f"   obligations: {len(summ)} names, {sum(1 for s in summ.values() if s['proved'] == s['n'])} proved")
        for name, s in summ.items():
            st = "proved" if s["proved"] == s["n"] else "REFUTED" if s["refuted"] else "unknown"
            if a.q and st == "proved":
                continue
            print(f"   {st:8s} {name}  x{s['n']} (proved {s['proved']}, refuted {s['refuted']}, unknown {s['unknown']})  {s['secs']:.2f}s   {s['clause'] or ''}")
            if st != "proved":
                rc = max(rc, 1)
                if a.v:
                    for ob in r.obligations:
                        if ob.name == name and ob.status != "proved":
                            print("      path:", ob.info.get("path"), "model:", str(ob.model)[:600] if ob.model is not None else None)
        for x in sorted(r.assumptions):
            if not a.q:
                print("   ASSUMPTION", x)
    return rc


if __name__ == "__main__":
    sys.exit(main())
