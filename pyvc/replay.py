"""Replay a counterexample against the REAL code (run under /venv/bin/python, PYTHONPATH=/verif:<repo>).

usage: python -m pyvc.replay <replay.json>
exit 0: the violation is confirmed natively (the failing clauses are printed)
exit 4: the inputs do not violate the executable contract natively (no failing input found)
exit 5: the replay could not be carried out (inputs not constructible, ...)

This module must not import z3 (it runs in the repository's own interpreter).
"""
from __future__ import annotations

import ast
import asyncio
import copy
import importlib
import json
import os
import sys
from fractions import Fraction


def resolve(qual):
    parts = qual.split(".")
    for k in range(len(parts), 0, -1):
        try:
            obj = importlib.import_module(".".join(parts[:k]))
        except ImportError:
            continue
        for p in parts[k:]:
            obj = getattr(obj, p)
        return obj
    raise ImportError(qual)


def build(v, memo):
    t = v["t"]
    if t == "none":
        return None
    if t in ("int", "bool", "str"):
        return v["v"]
    if t == "float":
        return float(Fraction(v["v"])) if "/" in v["v"] else float(v["v"])
    if t == "bytes":
        b = bytes.fromhex(v["hex"])
        return {"bytes": b, "bytearray": bytearray(b), "memoryview": memoryview(b)}[v.get("kind", "bytes")]
    if t == "enum":
        return resolve(v["cls"])(v["v"])
    if t == "class":
        return resolve(v["cls"])
    if t == "tuple":
        return tuple(build(x, memo) for x in v["items"])
    if t == "list":
        return [build(x, memo) for x in v["items"]]
    if t == "set":
        return {build(x, memo) for x in v["items"]}
    if t == "dict":
        return {build(k, memo): build(x, memo) for k, x in v["items"]}
    if t == "obj":
        if v["id"] in memo:
            return memo[v["id"]]
        cls = resolve(v["cls"])
        o = cls.__new__(cls)
        memo[v["id"]] = o
        for k, x in v["fields"].items():
            object.__setattr__(o, k, build(x, memo))
        return o
    if t == "transport":
        if v["id"] in memo:
            return memo[v["id"]]
        from unittest.mock import MagicMock
        tr = MagicMock()
        state = {"closing": v["closing"]}
        tr.is_closing.side_effect = lambda: state["closing"]
        tr.close.side_effect = lambda: state.__setitem__("closing", True)
        tr.get_extra_info.return_value = ("peer", 6444)
        memo[v["id"]] = tr
        return tr
    if t == "queue":
        q = asyncio.Queue()
        for x in v["items"]:
            q.put_nowait(build(x, memo))
        return q
    if t == "datetime":
        from datetime import datetime, timezone, timedelta
        return datetime(2000, 1, 1, tzinfo=timezone.utc) + timedelta(seconds=max(min(v["ts"], 10**9), -10**9))
    if t == "timedelta":
        from datetime import timedelta
        return timedelta(seconds=max(min(v["secs"], 10**9), -10**9))
    raise ValueError(f"cannot build input of type {t}")


class OldRewriter(ast.NodeTransformer):
    def __init__(self):
        self.olds = []

    def visit_Call(self, node):
        if isinstance(node.func, ast.Name) and node.func.id == "old":
            k = len(self.olds)
            self.olds.append(node.args[0])
            return ast.copy_location(ast.Name(id=f"__old_{k}", ctx=ast.Load()), node)
        if isinstance(node.func, ast.Name) and node.func.id == "implies" and len(node.args) == 2:
            a, b = self.visit(node.args[0]), self.visit(node.args[1])
            return ast.copy_location(ast.BoolOp(op=ast.Or(), values=[ast.UnaryOp(op=ast.Not(), operand=a), b]), node)
        return self.generic_visit(node)


def snapshot(x):
    try:
        return copy.deepcopy(x)
    except Exception:
        return x


PYVC_ONLY = ("events(", "final(", "pre(", "conforms(", "has_own(")
notes = []


def run(spec):
    sys.path.insert(0, os.path.dirname(os.path.dirname(os.path.abspath(__file__))))
    side = importlib.import_module(spec["sidecar"])
    ns = dict(vars(side))
    c = spec["contract"]
    memo = {}
    loc = {k: build(v, memo) for k, v in spec["inputs"].items()}
    for q, v in spec.get("globals", {}).items():
        cq, attr = q.rsplit(".", 1)
        setattr(resolve(cq), attr, build(v, memo))
    failures = []
    env = dict(loc)
    for src in c.get("requires", []):
        try:
            if not eval(src, ns, env):
                print(f"REPLAY precondition not met natively: {src}")
                return 4, []
        except Exception as e:
            print(f"REPLAY precondition raised {type(e).__name__}: {src}")
            return 4, []
    for n, src in c.get("let", {}).items():
        env[n] = eval(src, ns, env)
    # pre-evaluate old()
    clauses = {}

    def prep(name, src):
        rw = OldRewriter()
        tree = rw.visit(ast.parse(src.strip(), mode="eval"))
        ast.fix_missing_locations(tree)
        olds = {}
        for k, e in enumerate(rw.olds):
            olds[f"__old_{k}"] = snapshot(eval(compile(ast.Expression(e), "<old>", "eval"), ns, env))
        clauses[name] = (compile(tree, "<clause>", "eval"), olds, src)
    if c.get("returns"):
        prep("returns", f"result == ({c['returns']})")
    for n, src in c.get("ensures", {}).items():
        prep("post." + n, src)
    for lv, src in c.get("assigns", {}).items():
        prep("assign." + lv, f"({lv}) == ({src})")
    for n, src in c.get("post_let", {}).items():
        prep("postlet." + n, src)
    for q, r in c.get("raises", {}).items():
        if isinstance(r, dict):
            if r.get("when"):
                prep(f"raises.{q}.when", r["when"])
            for n, src in r.get("post", {}).items():
                prep(f"raises.{q}.{n}", src)
    if spec.get("kind") == "lemma":
        for name, (code, olds, src) in clauses.items():
            e2 = dict(env)
            e2.update(olds)
            if any(w in src for w in PYVC_ONLY):
                continue
            try:
                ok = eval(code, ns, e2)
            except Exception as e:
                notes.append(f"{name}: not evaluable natively ({type(e).__name__}: {e})   [{src}]")
                continue
            if not ok:
                failures.append(f"{name}: false   [{src}]")
        return (0 if failures else 4), failures
    # frame snapshot
    before = {}
    for k, o in loc.items():
        if hasattr(o, "__dict__") and not isinstance(o, type):
            before[k] = {f: snapshot(x) for f, x in vars(o).items()}
    fn = resolve_target(spec["target"].split("#")[0], loc)
    import inspect
    probe = fn
    try:
        owner_fn = resolve(spec["target"].split("#")[0].replace("!setter", ""))
        if inspect.iscoroutinefunction(owner_fn) or inspect.isasyncgenfunction(owner_fn):
            print("REPLAY not attempted: the target is a coroutine (its environment - event loop, sockets, peers - is not reproduced natively)")
            return 4, []
    except Exception:
        pass
    try:
        sig_names = set(inspect.signature(fn).parameters) if not isinstance(fn, type(lambda: 0)) or fn.__name__ != "<lambda>" else None
    except (TypeError, ValueError):
        sig_names = None
    real = real_params(spec["target"].split("#")[0], loc)
    args = {k: v for k, v in loc.items() if k not in ("self", "cls") and (real is None or k in real)}
    for pname, src in c.get("bind", {}).items():
        args[pname] = env[src]
    for pname in c.get("bind_kwargs", []):
        args[pname] = loc[pname]
    varargs = [loc[pname] for pname in c.get("bind_varargs", [])]
    for pname in c.get("bind_varargs", []):
        args.pop(pname, None)
    if varargs:
        fn0 = fn
        fn = lambda **kw: fn0(*varargs, **kw)
    raised = None
    result = None
    try:
        result = fn(**args)
        if asyncio.iscoroutine(result):
            result = asyncio.run(result)
    except BaseException as e:      # noqa
        raised = e
    env["result"] = result

    def check(name):
        code, olds, src = clauses[name]
        if any(w in src for w in PYVC_ONLY):
            notes.append(f"{name}: not evaluable natively (ghost vocabulary)   [{src}]")
            return
        e2 = dict(env)
        e2.update(olds)
        try:
            ok = eval(code, ns, e2)
        except Exception as e:
            notes.append(f"{name}: not evaluable natively ({type(e).__name__}: {e})   [{src}]")
            return
        if not ok:
            failures.append(f"{name}: false   [{src}]")
    if raised is None:
        for n, src in c.get("post_let", {}).items():
            try:
                code, olds, _ = clauses["postlet." + n]
                e2 = dict(env)
                e2.update(olds)
                env[n] = eval(code, ns, e2)
            except Exception as e:
                notes.append(f"post_let {n}: not evaluable natively ({type(e).__name__}: {e})")
        for name in clauses:
            if name.startswith(("returns", "post.", "assign.")):
                check(name)
        mods = list(c.get("modifies", [])) + list(c.get("assigns", {}))
        frame_check(loc, before, mods, failures)
    else:
        matched = None
        for q in c.get("raises", {}):
            try:
                ec = resolve_exc(q)
            except Exception:
                continue
            if isinstance(raised, ec):
                matched = q
                break
        if matched is None:
            import traceback
            tb = traceback.extract_tb(raised.__traceback__)
            where = f"{tb[-1].filename}:{tb[-1].lineno}" if tb else "?"
            failures.append(f"noraise.{type(raised).__name__}: {type(raised).__name__}({raised}) escaped at {where}")
        else:
            env["exc"] = raised
            for name in clauses:
                if name.startswith(f"raises.{matched}."):
                    check(name)
            r = c["raises"][matched]
            mods = (r.get("modifies") if isinstance(r, dict) and r.get("modifies") is not None else c.get("modifies", []))
            frame_check(loc, before, list(mods) + list(c.get("assigns", {})), failures)
    return (0 if failures else 4), failures


def frame_check(loc, before, mods, failures):
    for k, fields in before.items():
        o = loc[k]
        now = vars(o)
        for f in set(fields) | set(now):
            full = f"{k}.{f}"
            if full in mods or f"{k}.*" in mods:
                continue
            a, b = fields.get(f, "<absent>"), now.get(f, "<absent>")
            try:
                same = (a == b) and type(a) is type(b)
            except Exception:
                same = a is b
            if not same and not (hasattr(a, "__dict__") and a is not b and vars(a) == vars(b)):
                if hasattr(a, "__dict__") and hasattr(b, "__dict__"):
                    continue
                failures.append(f"frame.{full}: changed from {a!r} to {b!r}")


def real_params(qual, loc):
    """names of the real function's parameters (contract-only ghost parameters are not passed)"""
    import inspect
    parts = qual.split(".")
    name = parts[-1][:-7] if parts[-1].endswith("!setter") else parts[-1]
    try:
        owner = resolve(".".join(parts[:-1]))
        f = owner.__dict__.get(name) if hasattr(owner, "__dict__") else None
        if isinstance(f, property):
            f = f.fset if parts[-1].endswith("!setter") else f.fget
        if isinstance(f, (classmethod, staticmethod)):
            f = f.__func__
        if f is None:
            f = resolve(qual)
        ps = inspect.signature(f).parameters
        if any(p.kind == p.VAR_KEYWORD for p in ps.values()):
            return None
        return set(ps)
    except Exception:
        return None


def resolve_exc(q):
    if q.startswith("builtins."):
        import builtins
        return getattr(builtins, q.split(".")[-1])
    return resolve(q)


def resolve_target(qual, loc):
    parts = qual.split(".")
    setter = False
    if parts[-1].endswith("!setter"):
        setter = True
        parts[-1] = parts[-1][:-7]
    if "self" in loc:
        o = loc["self"]
        if setter:
            return lambda **kw: type(o).__dict__[parts[-1]].fset(o, **kw) if parts[-1] in type(o).__dict__ else getattr(type(o), parts[-1]).fset(o, **kw)
        # call the method as defined on the named class (not an override)
        owner = resolve(".".join(parts[:-1]))
        f = owner.__dict__.get(parts[-1])
        if isinstance(f, property):
            return lambda **kw: f.fget(o)
        return lambda **kw: getattr(owner, parts[-1])(o, **kw)
    return resolve(".".join(parts))


def matches(obligation, failure):
    """does this native failure witness the refuted obligation itself (and not some other clause)?"""
    key = failure.split(":", 1)[0].strip()
    tail = obligation.split("[")[0]
    if key.startswith("noraise."):
        return ".noraise." in tail and tail.rsplit(".noraise.", 1)[1].split(".")[-1] == key.split(".", 1)[1].split(".")[-1]
    if key.startswith("raises."):
        parts = key.split(".")
        return ".raises." in tail and tail.endswith("." + parts[-1]) and parts[-2].split(".")[-1] in tail
    return tail.endswith("." + key) or tail.endswith("." + key.split(".", 1)[-1]) and key.split(".")[0] in ("post", "assign", "frame") and ("." + key.split(".")[0] + ".") in tail


def main():
    spec = json.load(open(sys.argv[1]))
    try:
        rc, failures = run(spec)
    except Exception as e:
        import traceback
        traceback.print_exc()
        print(f"REPLAY-ERROR {type(e).__name__}: {e}")
        return 5
    ob = spec.get("obligation") or ""
    mine = [f for f in failures if matches(ob, f)]
    if rc == 0 and mine:
        print(f"REPLAY-CONFIRMED target={spec['target']} obligation={spec.get('obligation')}")
        for f in mine:
            print("   FAILS", f)
        for f in failures:
            if f not in mine:
                print("   (also)", f)
    else:
        rc = 4 if rc == 0 else rc
        for f in failures:
            print("   (other clause fails natively)", f)
        for f in notes:
            print("   (note)", f)
        print(f"REPLAY-NOT-CONFIRMED target={spec['target']} obligation={spec.get('obligation')} (executable contract holds on the concretised input)")
    return rc


if __name__ == "__main__":
    sys.exit(main())
