"""Turn a solver model into concrete inputs of the real function (for replay)."""
from __future__ import annotations

from fractions import Fraction

import z3

from .loader import ClassInfo
from .values import (HObj, Lit, VBool, VBytes, VFloat, VInt, VNone, VRef, VStr, VTuple, VUnion, View, _iv)


def _ev(m, t):
    return m.eval(t, model_completion=True)


def conc(I, m, v, heap, depth=0):
    if depth > 6:
        return {"t": "unknown"}
    if isinstance(v, VUnion):
        for c, a in v.alts:
            if z3.is_true(_ev(m, c)):
                return conc(I, m, a, heap, depth)
        return conc(I, m, v.alts[-1][1], heap, depth)
    if isinstance(v, VNone):
        return {"t": "none"}
    if isinstance(v, VBool):
        return {"t": "bool", "v": bool(v.c) if v.c is not None else z3.is_true(_ev(m, v.t))}
    if isinstance(v, VInt):
        if v.c is not None:
            k = v.c
        elif v.i is not None:
            k = _ev(m, v.i).as_long()
        else:
            k = _ev(m, v.b).as_signed_long()
        if v.enum is not None:
            return {"t": "enum", "cls": v.enum.qualname, "v": k}
        return {"t": "int", "v": k}
    if isinstance(v, VFloat):
        if v.c is not None:
            return {"t": "float", "v": repr(v.c)}
        r = _ev(m, v.t)
        try:
            fr = Fraction(r.numerator_as_long(), r.denominator_as_long())
        except Exception:
            fr = Fraction(0)
        return {"t": "float", "v": f"{fr.numerator}/{fr.denominator}"}
    if isinstance(v, VStr):
        return {"t": "str", "v": v.c if v.c is not None else "sym_" + str(_ev(m, v.t))}
    if isinstance(v, VBytes):
        out = bytearray()
        for s in v.segs:
            if isinstance(s, Lit):
                for b in s.bs:
                    out.append(b if isinstance(b, int) else _ev(m, b).as_long())
            else:
                n = _ev(m, _iv(s.n)).as_long()
                off = _ev(m, _iv(s.off)).as_long()
                for k in range(min(max(n, 0), 8192)):
                    out.append(_ev(m, z3.Select(s.base, off + k)).as_long())
        return {"t": "bytes", "kind": v.kind, "hex": bytes(out).hex()}
    if isinstance(v, VTuple):
        return {"t": "tuple", "items": [conc(I, m, x, heap, depth + 1) for x in v.items]}
    if isinstance(v, ClassInfo):
        return {"t": "class", "cls": v.qualname}
    if isinstance(v, VRef):
        o: HObj = heap[v.ref]
        if o.kind == "inst":
            f = o.meta.get("init_fields", o.fields)
            return {"t": "obj", "cls": o.cls.qualname, "id": v.ref,
                    "fields": {k: conc(I, m, x, heap, depth + 1) for k, x in f.items()}}
        if o.kind == "list":
            return {"t": "list", "items": [conc(I, m, x, heap, depth + 1) for x in o.items]}
        if o.kind == "set":
            return {"t": "set", "items": [conc(I, m, x, heap, depth + 1) for x in o.items]}
        if o.kind == "symset":
            mem = o.meta.get("init_mem", o.meta["mem"])
            return {"t": "set", "items": [conc(I, m, k, heap, depth + 1) for k, p in zip(o.items, mem) if z3.is_true(_ev(m, p))]}
        if o.kind == "dict":
            return {"t": "dict", "items": [[conc(I, m, k, heap, depth + 1), conc(I, m, x, heap, depth + 1)] for k, x in o.items]}
        if o.kind == "symdict":
            items = o.meta.get("init_items", o.items)
            return {"t": "dict", "items": [[conc(I, m, k, heap, depth + 1), conc(I, m, x, heap, depth + 1)] for k, p, x in items if z3.is_true(_ev(m, p))]}
        if o.kind == "symlist":
            from . import symlist
            return symlist.concretize(I, m, v, o, heap, depth, conc)
        tag = o.meta.get("tag")
        if tag == "transport":
            c = o.meta.get("init_closing", o.meta["closing"])
            return {"t": "transport", "id": v.ref, "closing": bool(c.c) if c.c is not None else z3.is_true(_ev(m, c.t))}
        if tag == "queue":
            items = o.meta["items"]
            return {"t": "queue", "id": v.ref, "items": conc(I, m, items, heap, depth + 1)["items"]}
        if tag == "datetime":
            return {"t": "datetime", "ts": _ev(m, o.meta["ts"]).as_long() if not isinstance(o.meta["ts"], int) else o.meta["ts"]}
        if tag == "timedelta":
            sv = o.meta["secs"]
            return {"t": "timedelta", "secs": sv.c if sv.c is not None else _ev(m, sv.as_int()).as_long()}
        if tag == "pset":
            return {"t": "set", "items": []}
        return {"t": "ext", "tag": tag}
    return {"t": "unknown", "repr": repr(v)[:80]}
