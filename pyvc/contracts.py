"""Contracts: loading of the sidecar files, symbolic inputs, verification of a function body against
its contract, use of callee contracts at call sites, loop contracts, lemmas."""
from __future__ import annotations

import ast
import re
import os

import z3

from . import builtins as B
from . import ops
from .interp import (BreakSig, ContinueSig, Frame, Interp, PyRaise, ReturnSig, VFunc)
from .loader import ClassInfo, ModuleInfo, builtin_class, has_builtin_class
from .path import PathEnd
from .values import (ARR, FALSE, INT, MAXLEN, NONE, TRUE, HObj, Lit, Unsupported, V, VBool, VBytes, VFloat,
                     VInt, VNone, VRef, VStr, VTuple, VUnion, View, fresh, mkbool, mkint, STR)


def const_eval(node, env):
    """literal data of the contract DSL: constants, names of earlier constants, +, containers"""
    if isinstance(node, ast.Constant):
        return node.value
    if isinstance(node, ast.Name):
        if node.id in env:
            return env[node.id]
        raise ValueError(f"name {node.id} is not a DSL constant")
    if isinstance(node, ast.BinOp) and isinstance(node.op, ast.Add):
        return const_eval(node.left, env) + const_eval(node.right, env)
    if isinstance(node, ast.Dict):
        out = {}
        for k, v in zip(node.keys, node.values):
            if k is None:
                out.update(const_eval(v, env))
            else:
                out[const_eval(k, env)] = const_eval(v, env)
        return out
    if isinstance(node, (ast.List, ast.Tuple)):
        return [const_eval(x, env) for x in node.elts]
    if isinstance(node, ast.UnaryOp) and isinstance(node.op, ast.USub):
        return -const_eval(node.operand, env)
    raise ValueError(f"not a DSL constant: {ast.dump(node)[:80]}")


class Contract:
    def __init__(self, target, kw, module):
        self.target = target
        self.module = module                    # sidecar ModuleInfo (name space of the clauses)
        self.params = kw.get("params", {})
        self.globals = kw.get("globals", {})    # qualified class attribute -> type
        self.requires = kw.get("requires", [])
        self.returns = kw.get("returns")
        self.rtype = kw.get("rtype")
        self.ensures = kw.get("ensures", {})
        self.raises = kw.get("raises", {})
        self.modifies = kw.get("modifies", [])
        self.assigns = kw.get("assigns", {})
        self.loops = {int(k): v for k, v in kw.get("loops", {}).items()}
        self.inline = kw.get("inline", False)
        self.ghost = kw.get("ghost", {})
        self.lets = kw.get("let", {})           # name -> expr, evaluated at entry (after requires)
        self.bind = kw.get("bind", {})
        self.bind_varargs = kw.get("bind_varargs", [])
        self.bind_kwargs = kw.get("bind_kwargs", [])
        self.defaults = kw.get("defaults", {})
        self.yields = kw.get("yields")          # element type of an (async) generator
        self.cancellation = kw.get("cancellation", False)          # function parameter -> name of a let / param (derived argument)
        self.post_lets = kw.get("post_let", {})  # name -> expr, evaluated at exit
        self.kind = kw.get("kind", "function")  # function | lemma
        self.covers = kw.get("covers", {})
        self.notes = kw.get("notes", "")
        self.noreturn = kw.get("noreturn", False)   # the contract describes inputs on which the function never returns normally
        self.verified_by = kw.get("verified_by", [])    # for an assumed call-site view: the contracts of the same body that are verified
        self.assumed = kw.get("assumed")        # reason: this contract is used at call sites but cannot be verified against the body (listed as an assumption)
        self.calls_inline = set(kw.get("calls_inline", []))
        self.reveal = set(kw.get("reveal", []))
        self.defines_on_return = kw.get("defines_on_return")   # opaque predicate (expr) defined as "this pure function returns normally"
        self.exists = kw.get("exists", {})      # name -> {"len": expr, "witness": expr}: existentially quantified bytes in `returns`
        self.emits = kw.get("emits", {})        # ghost events appended at call sites: name -> expr
        self.use = kw.get("use", {})            # callee qualname -> name of the contract variant to use at call sites of this function
        self.scenario = kw.get("scenario", {})  # callee qualname -> clause assumed on its normal return (hypothesis about the environment)
        # program locals the clauses mention -> the role that identifies them if they get renamed:
        # "loopK.target" | "returned" | "assigned_from:<piece of the right-hand side>"
        self.local_roles = kw.get("local_roles", {})
        self.rename = {}
        self.loops_eff = None
        self._renamed_for = None
        self._exprs = {}

    def expr(self, src):
        key = (src, tuple(sorted(self.rename.items())) if self.rename else None)
        e = self._exprs.get(key)
        if e is None:
            e = ast.parse(src.strip(), mode="eval").body
            if self.rename:
                e = _Renamer(self.rename).visit(e)
                ast.fix_missing_locations(e)
            self._exprs[key] = e
        return e


class _Renamer(ast.NodeTransformer):
    def __init__(self, m):
        self.m = m

    def visit_Name(self, node):
        if node.id in self.m:
            return ast.copy_location(ast.Name(id=self.m[node.id], ctx=node.ctx), node)
        return node

    def visit_Call(self, node):
        self.generic_visit(node)
        if isinstance(node.func, ast.Name) and node.func.id == "final" and node.args and isinstance(node.args[0], ast.Constant) \
                and node.args[0].value in self.m:
            node.args[0] = ast.copy_location(ast.Constant(self.m[node.args[0].value]), node.args[0])
        return node


class VMaybeUnbound(V):
    """a local that only the body of a contract-governed loop binds: unbound while no iteration has run, unknown afterwards"""

    def __init__(self, name, is_for, last=None, count=None, prev=None):
        self.name, self.is_for = name, is_for
        self.prev = prev        # value before the loop, if the name was bound then
        self.last, self.count = last, count     # after the loop: value of the last iteration (thunk) and the number of iterations

    def __repr__(self):
        return f"<maybe-unbound {self.name}>"


class VPoison(V):
    """value of a variable that a loop may have changed and whose type pyvc cannot havoc: any use is outside the subset"""

    def __init__(self, name):
        self.name = name

    def __repr__(self):
        return f"<poison {self.name}: havoc of this variable needs a declared type>"


class ContractSet:
    def __init__(self, loader, directory):
        self.L = loader
        self.dir = directory
        self.contracts = {}
        self.lemmas = {}
        self.fields = {}
        self.modules = {}
        self.opaque = {}
        self.inputs_phase = False
        self.used = set()           # contracts applied at call sites (callee known only by its contract)
        self.pre_vals = None
        self.old_vals = None
        self.entry_frame = None
        self.active = []            # stack of contracts being verified/applied
        self.loop_ords = {}
        for fn in sorted(os.listdir(directory)):
            if fn.endswith(".py") and not fn.startswith("_"):
                self._load(os.path.join(directory, fn))

    def _load(self, path):
        name = "contracts." + os.path.basename(path)[:-3]
        m = ModuleInfo(name, path)
        self.L.modules[name] = m
        self.L._index(m)
        # `from pyvc.dsl import ...` : spec builtins resolve through builtin_name
        for k in list(m.defs):
            if m.defs[k][0] == "from" and m.defs[k][1] == "pyvc.dsl":
                del m.defs[k]
        self.modules[name] = m
        env = {}
        for node in m.tree.body:
            if isinstance(node, ast.Assign) and len(node.targets) == 1 and isinstance(node.targets[0], ast.Name):
                try:
                    env[node.targets[0].id] = const_eval(node.value, env)
                except ValueError:
                    pass
            if isinstance(node, ast.Expr) and isinstance(node.value, ast.Call) and isinstance(node.value.func, ast.Name):
                fn = node.value.func.id
                if fn == "opaque":
                    nm = const_eval(node.value.args[0], env)
                    self.opaque[f"{name}.{nm}"] = {k.arg: const_eval(k.value, env) for k in node.value.keywords}
                    continue
                if fn not in ("contract", "fields", "lemma"):
                    continue
                tgt = const_eval(node.value.args[0], env)
                kw = {k.arg: const_eval(k.value, env) for k in node.value.keywords}
                if fn == "contract":
                    self.contracts[tgt] = Contract(tgt, kw, m)
                elif fn == "lemma":
                    kw["kind"] = "lemma"
                    self.lemmas[tgt] = Contract(tgt, kw, m)
                else:
                    self.fields.setdefault(tgt, {}).update(kw)

    # ------------------------------------------------------------------------------------------
    def for_call(self, qualname, I):
        """contract to use at a call site (None -> inline the body)"""
        c = self.contracts.get(qualname)
        if c is None or c.inline:
            return None
        if I.verifying is not None and I.verifying.split("#")[0] == qualname and not I.in_callee:
            return None
        cur = self.contracts.get(I.verifying) if I.verifying else None
        if cur is not None and qualname in cur.calls_inline:
            return None
        if cur is not None and qualname in cur.use:
            return self.contracts[cur.use[qualname]]
        return c

    def opaque_call(self, I, fv, args):
        """spec function declared opaque: uninterpreted unless revealed by the contract being verified"""
        info = self.opaque.get(fv.qualname)
        if info is None:
            return None
        cur = self.contracts.get(I.verifying) or self.lemmas.get(I.verifying)
        short = fv.qualname.split(".")[-1]
        if cur is not None and short in cur.reveal:
            return None
        args = [I.resolve(a) for a in args]
        if info.get("rtype") == "bool":
            return B.opaque_bool(I, "spec_" + short, args)
        if all(isinstance(a, VInt) and a.c is not None for a in args):
            return None
        if not all(isinstance(a, VInt) and a.fits_bv() for a in args):
            raise Unsupported(f"opaque spec function {short}: arguments must be bounded ints")
        BV = z3.BitVecSort(64)
        F = z3.Function("spec_" + short, *([BV] * len(args) + [BV]))
        t = F(*[a.as_bv() for a in args])
        lo, hi = [int(x, 0) for x in info["rtype"][4:-1].split(",")]
        fid = ("opq", t.get_id())
        if fid not in I.path.facts_done:
            I.path.facts_done.add(fid)
            I.path.assume(z3.And(t >= lo, t <= hi))
            I.path.assumption(f"opaque spec function {short}: range {info['rtype']} (lemma {info.get('lemma', short + '.range')})")
        return VInt(b=t, lo=lo, hi=hi)

    # ------------------------------------------------------------------------------------------
    # symbolic inputs
    # ------------------------------------------------------------------------------------------
    def class_fields(self, cls: ClassInfo):
        out = {}
        for c in reversed(cls.mro()):
            out.update(self.fields.get(c.qualname, {}))
        return out

    def conforms(self, I, ref):
        """every field the sidecar declares for the object's class exists and holds a value of the declared type
        (the class invariant that contracts assume for `obj:` parameters; constructors are verified to establish it)"""
        o = I.hobj(ref)
        terms = []
        for f, ft in self.class_fields(o.cls).items():
            if f not in o.fields:
                return z3.BoolVal(False)
            terms.append(self.type_ok(I, o.fields[f], ft))
        return z3.And(terms) if terms else z3.BoolVal(True)

    def type_ok(self, I, v, typ):
        typ = typ.strip()
        if isinstance(v, VUnion):
            return z3.And([z3.Implies(g, self.type_ok(I, a, typ)) for g, a in v.alts])
        if typ.startswith("opt:"):
            return z3.BoolVal(True) if isinstance(v, VNone) else self.type_ok(I, v, typ[4:])
        if typ.startswith("union:"):
            return z3.Or([self.type_ok(I, v, p) for p in typ[6:].split("|")])
        if typ == "none":
            return z3.BoolVal(isinstance(v, VNone))
        if typ in ("int", "nat") or typ.startswith("int["):
            if not isinstance(v, (VInt, VBool)):
                return z3.BoolVal(False)
            if isinstance(v, VBool):
                v = ops._to_intlike(I, v)
            lo, hi = (0, None) if typ == "nat" else (None, None)
            if typ.startswith("int["):
                lo, hi = [int(x, 0) for x in typ[4:-1].split(",")]
            t = []
            if lo is not None:
                t.append(ops.int_cmp(">=", v, mkint(lo)).term())
            if hi is not None:
                t.append(ops.int_cmp("<=", v, mkint(hi)).term())
            return z3.And(t) if t else z3.BoolVal(True)
        if typ == "byte":
            return self.type_ok(I, v, "int[0,255]")
        if typ == "bool":
            return z3.BoolVal(isinstance(v, VBool))
        if typ == "float":
            return z3.BoolVal(isinstance(v, (VFloat, VInt)) and not isinstance(v, VBool))
        if typ == "str":
            return z3.BoolVal(isinstance(v, VStr))
        if typ.split("[")[0] in ("bytes", "bytearray", "memoryview"):
            if not isinstance(v, VBytes) or v.kind != typ.split("[")[0]:
                return z3.BoolVal(False)
            if "[" in typ:
                n = v.length()
                want = int(typ[typ.index("[") + 1:-1])
                return z3.BoolVal(n == want) if isinstance(n, int) else (n == want)
            return z3.BoolVal(True)
        if typ.startswith("enum:"):
            cls = I.class_by_qual(typ[5:])
            return z3.BoolVal(isinstance(v, VInt) and v.enum is not None and any(kc is cls for kc in v.enum.mro()))
        if typ.startswith(("obj:", "sub:")):
            cls = I.class_by_qual(typ[4:])
            return z3.BoolVal(isinstance(v, VRef) and I.hobj(v).kind == "inst" and any(kc is cls for kc in I.hobj(v).cls.mro()))
        if typ.startswith(("set:", "symset")):
            return z3.BoolVal(isinstance(v, VRef) and I.hobj(v).kind in ("set", "symset") or isinstance(v, VRef) and I.hobj(v).meta.get("tag") == "pset")
        if typ.startswith("symdict:") or typ.startswith("dict"):
            return z3.BoolVal(isinstance(v, VRef) and I.hobj(v).kind in ("dict", "symdict"))
        if typ.startswith("list:"):
            return z3.BoolVal(isinstance(v, VRef) and I.hobj(v).kind in ("list", "symlist"))
        if typ.startswith("tuple:"):
            return z3.BoolVal(isinstance(v, VTuple))
        if typ.startswith("ext:"):
            if not isinstance(v, VRef):
                return z3.BoolVal(False)
            o = I.hobj(v)
            tag = typ[4:].split(":")[0]
            if o.kind == "ext" and o.meta.get("tag") not in (None, tag) and tag in ("queue", "transport", "lock", "datetime", "timedelta"):
                return z3.BoolVal(False)
            if tag == "queue" and o.meta.get("bounded"):
                return z3.BoolVal(False)        # the contracts' queue is unbounded (put_nowait never raises QueueFull)
            return z3.BoolVal(True)
        raise Unsupported(f"conforms: type {typ}")

    def make(self, I: Interp, typ: str, name: str, depth=0):
        P = I.path
        typ = typ.strip()
        if typ.startswith("opt:"):
            isn = z3.Bool(fresh(name + "_isnone"))
            v = self.make(I, typ[4:], name, depth)
            return VUnion([(isn, NONE), (z3.Not(isn), v)])
        if typ.startswith("union:"):
            parts = typ[6:].split("|")
            alts = []
            rest = z3.BoolVal(True)
            for k, p in enumerate(parts):
                if k == len(parts) - 1:
                    alts.append((rest, self.make(I, p, name, depth)))
                else:
                    c = z3.Bool(fresh(f"{name}_is{k}"))
                    alts.append((z3.And(rest, c), self.make(I, p, name, depth)))
                    rest = z3.And(rest, z3.Not(c))
            return VUnion(alts)
        if typ == "none":
            return NONE
        if typ == "int":
            return VInt(i=z3.Int(fresh(name)))
        if typ == "nat":
            t = z3.Int(fresh(name))
            P.assume(t >= 0)
            return VInt(i=t, lo=0, hi=None)
        if typ.startswith("int["):
            lo, hi = [int(x, 0) for x in typ[4:-1].split(",")]
            t = z3.Int(fresh(name))
            P.assume(z3.And(t >= lo, t <= hi))
            return VInt(i=t, lo=lo, hi=hi)
        if typ == "byte":
            return B.byte_val(z3.BitVec(fresh(name), 8))
        if typ == "bool":
            return VBool(t=z3.Bool(fresh(name)))
        if typ == "float":
            return VFloat(t=z3.Real(fresh(name)))
        if typ == "str":
            return VStr(t=z3.Const(fresh(name), STR))
        if typ.split("[")[0] in ("bytes", "bytearray", "memoryview"):
            kind = typ.split("[")[0]
            if "[" in typ:
                n = int(typ[typ.index("[") + 1:-1])
                return VBytes([Lit([z3.BitVec(fresh(f"{name}_{k}"), 8) for k in range(n)])], kind)
            n = z3.Int(fresh(name + "_len"))
            P.assume(z3.And(n >= 0, n <= MAXLEN))
            return VBytes([View(z3.Const(fresh(name), ARR), 0, n)], kind)
        if typ.startswith("enum:"):
            cls = I.class_by_qual(typ[5:])
            vals = I.enum_values(cls)
            t = z3.Int(fresh(name))
            P.assume(z3.Or([t == v for v in vals]))
            return VInt(i=t, lo=min(vals), hi=max(vals), enum=cls)
        if typ.startswith("const:"):
            fr = Frame(self.any_module())
            return I.ev(ast.parse(typ[6:], mode="eval").body, fr)
        if typ.startswith("new:"):
            # a freshly allocated instance before __init__ ran: no instance attributes yet
            cls = I.class_by_qual(typ[4:])
            ref = VRef(P.alloc(HObj("inst", cls, {}, meta={"name": name, "input": bool(self.inputs_phase), "init_fields": {}, "own": set()})))
            return ref
        if typ.startswith("sub:"):
            # any class of the repository that is the named class or a subclass of it (closed world)
            base = I.class_by_qual(typ[4:])
            subs = [c for c in self.all_repo_classes(I) if c.issub(base)]
            return self.make(I, "union:" + "|".join("obj:" + c.qualname for c in subs), name, depth)
        if typ.startswith("obj:"):
            cls = I.class_by_qual(typ[4:])
            if depth > 4:
                raise Unsupported("object nesting too deep")
            ref = VRef(P.alloc(HObj("inst", cls, {}, meta={"name": name, "input": bool(self.inputs_phase)})))
            o = P.heap[ref.ref]
            for f, ft in self.class_fields(cls).items():
                o.fields[f] = self.make(I, ft, f"{name}.{f}", depth + 1)
            o.meta["init_fields"] = dict(o.fields)
            # attributes that the constructors set but the contract does not describe exist with an arbitrary value
            # (not an AttributeError); they are outside the frame condition
            from .values import VAny
            for kc in cls.mro():
                init = kc.methods.get("__init__") if not kc.builtin else None
                if init is None or not init.args.args:
                    continue
                me = init.args.args[0].arg
                for n_ in ast.walk(init):
                    tg = n_.targets if isinstance(n_, ast.Assign) else [n_.target] if isinstance(n_, (ast.AnnAssign, ast.AugAssign)) else []
                    for t_ in tg:
                        for a_ in ([t_] if not isinstance(t_, ast.Tuple) else t_.elts):
                            if isinstance(a_, ast.Attribute) and isinstance(a_.value, ast.Name) and a_.value.id == me and a_.attr not in o.fields:
                                o.fields[a_.attr] = VAny(f"{cls.name}.{a_.attr}")
                                o.meta.setdefault("undeclared", set()).add(a_.attr)
            return ref
        if typ.startswith("set:"):
            # finite universe: all members of an enum
            cls = I.class_by_qual(typ[4:].replace("enum:", ""))
            uni = [VInt(c=v, enum=cls) for v in I.enum_values(cls)]
            mem = [z3.Bool(fresh(f"{name}_has_{v.c}")) for v in uni]
            ref = B.new_symset(I, uni, mem)
            I.hobj(ref).meta["init_mem"] = list(mem)
            return ref
        if typ.startswith("symdict:"):
            # symdict:<name of a dict {key: value type} or list of keys>[:<key enum or value type>]
            parts = typ.split(":", 2)
            keys_src = parts[1]
            extra = parts[2] if len(parts) > 2 else None
            fr = Frame(self.module_defining(keys_src))
            kv = I.ev(ast.parse(keys_src, mode="eval").body, fr)
            triples = []
            kenum = I.class_by_qual(extra[5:]) if extra and extra.startswith("enum:") else None
            if isinstance(kv, VRef) and I.hobj(kv).kind == "dict":
                pairs = [(k, v.c) for k, v in I.hobj(kv).items]
            else:
                pairs = [(k, extra) for k in I.iterate(kv)]
            for k, vt in pairs:
                kn = k.c if isinstance(k, (VStr, VInt)) else "k"
                if kenum is not None:
                    k = VInt(c=k.c, enum=kenum)
                triples.append((k, z3.Bool(fresh(f"{name}_has_{kn}")), self.make(I, vt, f"{name}[{kn}]", depth + 1)))
            ref = B.new_symdict(I, triples)
            I.hobj(ref).meta["init_items"] = list(triples)
            return ref
        if typ.startswith("list:"):
            from . import symlist
            return symlist.make(I, self, typ[5:], name)
        if typ.startswith("tuple:"):
            return VTuple([self.make(I, t, f"{name}_{k}", depth) for k, t in enumerate(typ[6:].split(","))])
        if typ.startswith("ext:"):
            from . import libmodels
            return libmodels.make_ext(I, self, typ[4:], name)
        raise Unsupported(f"unknown type {typ!r}")

    def all_repo_classes(self, I):
        out = []
        root = os.path.join(self.L.repo, "msmart")
        for dp, dn, fn in os.walk(root):
            for f in sorted(fn):
                if not f.endswith(".py") or f.startswith("test_") or os.path.basename(dp) == "tests":
                    continue
                rel = os.path.relpath(os.path.join(dp, f), self.L.repo)[:-3].replace(os.sep, ".")
                if rel.endswith(".__init__"):
                    rel = rel[:-9]
                if rel in ("msmart.cli",):
                    continue
                try:
                    m = self.L.module(rel)
                except Exception:
                    continue
                for nm, d in m.defs.items():
                    if d[0] == "class":
                        try:
                            out.append(self.L.build_class(m, d[1], I))
                        except Unsupported:
                            pass
        return out

    def module_defining(self, name):
        for m in self.modules.values():
            if name in m.defs:
                return m
        return self.any_module()

    def any_module(self):
        return next(iter(self.modules.values()))

    # ------------------------------------------------------------------------------------------
    # clause evaluation
    # ------------------------------------------------------------------------------------------
    def clause_frame(self, c: Contract, loc):
        return Frame(c.module, locals=dict(loc), func="<spec>")

    def eval_clause(self, I: Interp, c: Contract, src, fr, assuming=True) -> VBool:
        try:
            v = I.ev(c.expr(src), fr)
        except PyRaise as e:
            if assuming:
                raise Unsupported(f"specification clause raised {I.hobj(e.exc).cls.name} while being assumed: {src}")
            raise
        return ops.truth(I, v)

    def check_clause(self, I, c, name, src, fr):
        saved_old = self.old_vals
        try:
            t = self.eval_clause(I, c, src, fr, assuming=False)
            I.path.oblige(name, t.term(), {"clause": src, "contract": c.target})
        except PyRaise as e:
            I.path.oblige(name, False, {"clause": src, "contract": c.target,
                                        "spec_raised": I.hobj(e.exc).cls.qualname})

    def collect_olds(self, c: Contract):
        srcs = list(c.ensures.values()) + list(c.assigns.values()) + list(c.post_lets.values())
        if c.returns:
            srcs.append(c.returns)
        for r in c.raises.values():
            if isinstance(r, dict):
                srcs += list(r.get("post", {}).values())
                if r.get("when"):
                    srcs.append(r["when"])
        for l in c.loops.values():
            srcs += l.get("invariant", [])
            srcs += list(l.get("define", {}).values())
            srcs += list(l.get("ghost_step", {}).values())
        out = []
        for s in srcs:
            for n in ast.walk(c.expr(s)):
                if isinstance(n, ast.Call) and isinstance(n.func, ast.Name) and n.func.id == "old":
                    out.append(n.args[0])
        return out

    def snapshot_olds(self, I, c, fr):
        vals = {}
        for e in self.collect_olds(c):
            k = ast.unparse(e)
            if k not in vals:
                vals[k] = self.snapshot(I, I.ev(e, fr))
        return vals

    def snapshot(self, I, v, deep_inst=False):
        if isinstance(v, VRef):
            o = I.hobj(v)
            if deep_inst and o.kind == "inst":
                n = HObj("inst", o.cls, {k: self.snapshot(I, x) for k, x in o.fields.items()}, meta={"snapshot_of": v.ref})
                return VRef(I.path.alloc(n))
            if o.kind in ("list", "dict", "set", "symset", "symdict"):
                n = HObj(o.kind, items=list(o.items), meta={k: (list(x) if isinstance(x, list) else x) for k, x in o.meta.items()})
                return VRef(I.path.alloc(n))
        return v

    def eval_old(self, I, node, fr):
        k = ast.unparse(node.args[0])
        if self.old_vals is None or k not in self.old_vals:
            raise Unsupported(f"old({k}) outside a post-condition")
        return self.old_vals[k]

    # ------------------------------------------------------------------------------------------
    # verification of one function against its contract
    # ------------------------------------------------------------------------------------------
    def resolve_target(self, I, c: Contract):
        """VFunc of the real function (from the current working tree)"""
        m, rest = self.L.find_function(c.target.split("#")[0])
        v = I.module_get(m, rest[0])
        for p in rest[1:]:
            if isinstance(v, ClassInfo):
                if p.endswith("!setter"):
                    cc, fn = v.find_method(p[:-7] + ".setter")
                    if fn is None:
                        raise Unsupported(f"setter {c.target} not found")
                    v = VFunc(fn, cc.module, cls=cc, qualname=f"{cc.qualname}.{p[:-7]}.setter")
                    continue
                a = I.class_attr(v, p)
                if a is None:
                    raise Unsupported(f"{c.target}: {p} not found")
                v = a
            else:
                raise Unsupported(f"{c.target}: cannot descend into {v!r}")
        if not isinstance(v, VFunc):
            raise Unsupported(f"{c.target} is not a function")
        if v.kind == "classmethod" and v.self_val is None:
            v = v.bind(v.cls)
        return v

    def number_loops(self, fnode):
        k = 0
        stack = list(reversed(fnode.body)) if not isinstance(fnode, ast.Lambda) else []
        order = []

        def walk(stmts):
            for s in stmts:
                if isinstance(s, (ast.For, ast.While, ast.AsyncFor)):
                    order.append(s)
                    walk(s.body)
                    walk(s.orelse)
                elif isinstance(s, (ast.If,)):
                    walk(s.body)
                    walk(s.orelse)
                elif isinstance(s, ast.Try):
                    walk(s.body)
                    for h in s.handlers:
                        walk(h.body)
                    walk(s.orelse)
                    walk(s.finalbody)
                elif isinstance(s, (ast.With, ast.AsyncWith)):
                    walk(s.body)
                elif isinstance(s, ast.Assign) and len(s.targets) == 1 and isinstance(s.targets[0], ast.Name) and isinstance(s.value, ast.ListComp) \
                        and len(s.value.generators) == 1 and not s.value.generators[0].is_async:
                    # `xs = [e for t in it if c]` counts as the loop it abbreviates (used when `it` has symbolic length)
                    order.append(self.desugar_listcomp(s))
        if not isinstance(fnode, ast.Lambda):
            walk(fnode.body)
        for i, s in enumerate(order):
            s._pyvc_ord = i
            s._pyvc_all = order
            s._pyvc_fn = fnode
        return order

    @staticmethod
    def desugar_listcomp(st):
        loop = getattr(st, "_pyvc_desugared", None)
        if loop is None:
            g = st.value.generators[0]
            name = st.targets[0].id
            app = ast.Expr(ast.Call(func=ast.Attribute(value=ast.Name(id=name, ctx=ast.Load()), attr="append", ctx=ast.Load()),
                                    args=[st.value.elt], keywords=[]))
            body = [app]
            for cond in reversed(g.ifs):
                body = [ast.If(test=cond, body=body, orelse=[])]
            # all conditions nest in the written order: the first `if` is the outermost
            if len(g.ifs) > 1:
                body = [app]
                for cond in reversed(g.ifs):
                    body = [ast.If(test=cond, body=body, orelse=[])]
            loop = ast.For(target=g.target, iter=g.iter, body=body, orelse=[])
            ast.copy_location(loop, st)
            ast.fix_missing_locations(loop)
            st._pyvc_desugared = loop
        return loop

    def merged_loops(self, c):
        loops = {}
        if "#" in c.target:
            base = self.contracts.get(c.target.split("#")[0])
            if base is not None:
                loops.update(base.loops)
        loops.update(c.loops)
        return loops

    def ensure_roles(self, c, fnode):
        """a program local that the clauses name but that no longer exists in the function is re-identified by its declared role
        (renamed locals must not make a function undecided); an unresolvable role is reported as outside the subset"""
        if c._renamed_for is fnode:
            return
        c._renamed_for = fnode
        roles = {}
        if "#" in c.target:
            base = self.contracts.get(c.target.split("#")[0])
            if base is not None:
                roles.update(base.local_roles)
        roles.update(c.local_roles)
        loops = {k_: dict(v_) for k_, v_ in self.merged_loops(c).items()}
        c.rename = {}
        c.loops_eff = loops
        c._exprs = {}
        if not roles or isinstance(fnode, ast.Lambda):
            return
        a = fnode.args
        own = {p.arg for p in a.posonlyargs + a.args + a.kwonlyargs} | self.assigned_names(fnode.body)
        for s_ in ast.walk(fnode):
            if isinstance(s_, (ast.For, ast.AsyncFor)):
                own |= {n.id for n in ast.walk(s_.target) if isinstance(n, ast.Name)}
        missing = {n: r for n, r in roles.items() if n not in own}
        if not missing:
            return
        order = self.number_loops(fnode)

        def renamed_loops():
            ren = {}
            for k, lc in loops.items():
                lc2 = dict(lc)
                for sec in ("define", "havoc"):
                    if sec in lc:
                        lc2[sec] = {c.rename.get(n, n): v for n, v in lc[sec].items()}
                if lc.get("match"):
                    for old_, new_ in c.rename.items():
                        lc2["match"] = re.sub(r"\b%s\b" % re.escape(old_), new_, lc2["match"])
                ren[k] = lc2
            return ren
        # locals identified by the statement that defines them first (loop keys may mention them), loop targets second
        for phase in (0, 1):
            for name, role in missing.items():
                if (role.startswith("loop")) != (phase == 1):
                    continue
                new = self.resolve_role(c, fnode, order, renamed_loops(), role)
                if (new is None or new in roles and new not in missing) and self.only_in_hints(c, loops, name):
                    # the local is mentioned by optional intermediate assertions (step_hints) only: drop those hints
                    for lc_ in loops.values():
                        if "step_hints" in lc_:
                            lc_["step_hints"] = {k_: v_ for k_, v_ in lc_["step_hints"].items()
                                                 if not re.search(r"\b%s\b" % re.escape(name), v_)}
                    continue
                if new is None or new in roles and new not in missing:
                    # left unresolved: a clause that needs the name finds it among the exported ghosts of a helper loop, or is outside the subset
                    continue
                c.rename[name] = new
        c.loops_eff = renamed_loops()

    @staticmethod
    def only_in_hints(c, loops, name):
        pat = re.compile(r"\b%s\b" % re.escape(name))
        texts = list(c.ensures.values()) + list(c.post_lets.values()) + list(c.requires) + list(c.lets.values()) + list(c.assigns.values())
        for spec in c.raises.values():
            if isinstance(spec, dict):
                texts += list(spec.get("post", {}).values()) + [spec.get("when") or ""]
        for lc in loops.values():
            for sec in ("invariant", "assume"):
                texts += list(lc.get(sec, []))
            for sec in ("define", "ghost_init", "ghost_step", "step_ensures", "havoc"):
                texts += list(lc.get(sec, {}).values()) + list(lc.get(sec, {}).keys())
            texts.append(lc.get("variant") or "")
            texts.append(lc.get("match") or "")
        return not any(pat.search(t) for t in texts if isinstance(t, str))

    def resolve_role(self, c, fnode, order, loops, role, cache_tag=""):
        if role == "returned":
            names = set()
            stack = list(fnode.body)
            while stack:
                s_ = stack.pop()
                if isinstance(s_, (ast.FunctionDef, ast.AsyncFunctionDef, ast.Lambda, ast.ClassDef)):
                    continue
                if isinstance(s_, ast.Return):
                    if not isinstance(s_.value, ast.Name):
                        return None
                    names.add(s_.value.id)
                stack.extend(ast.iter_child_nodes(s_))
            return names.pop() if len(names) == 1 else None
        if role.startswith("loop") and (role.endswith(".target") or role.endswith(".iter")):
            k = int(role[4:role.rindex(".")])
            if not all(l.get("match") for l in loops.values()):
                node = order[k] if k < len(order) else None
            else:
                try:
                    amap = self.align_loops(c, loops, order, cache_tag=cache_tag)
                except Unsupported:
                    return None
                inv = {ck: i for i, ck in amap.items()}
                node = order[inv[k]] if k in inv else None
                if node is None and len(order) == 1 and role.endswith(".iter"):
                    node = order[0]
            if node is None or not isinstance(node, (ast.For, ast.AsyncFor)):
                return None
            tgt = node.target if role.endswith(".target") else node.iter
            return tgt.id if isinstance(tgt, ast.Name) else None
        if role.startswith("assigned_from:"):
            piece = role.split(":", 1)[1]
            names = []
            for s_ in ast.walk(fnode):
                if isinstance(s_, ast.Assign) and len(s_.targets) == 1 and isinstance(s_.targets[0], ast.Name) and piece in ast.unparse(s_.value):
                    if s_.targets[0].id not in names:
                        names.append(s_.targets[0].id)
                elif isinstance(s_, ast.NamedExpr) and piece in ast.unparse(s_.value) and s_.target.id not in names:
                    names.append(s_.target.id)
            return names[0] if len(names) == 1 else None
        raise Unsupported(f"unknown local role {role}")

    def setup_inputs(self, I, c: Contract):
        loc = {}
        self.inputs_phase = True
        try:
            for p, t in c.params.items():
                loc[p] = self.make(I, t, p)
        finally:
            self.inputs_phase = False
        for q, t in c.globals.items():
            cq, attr = q.rsplit(".", 1)
            cls = I.class_by_qual(cq)
            v = self.make(I, t, q)
            I.path.globals[("clsattr", cls.qualname, attr)] = v
            I.path.ghost.setdefault("init_globals", {})[(cls.qualname, attr)] = v
        return loc

    def verify_path(self, I: Interp, c: Contract, path):
        """one path through the body of c.target; obligations are recorded on the path"""
        I.path = path
        I.str_consts = {}
        I.verifying = c.target
        I.final_frames = {}
        I.in_callee = 0
        self.old_vals = None
        loc = self.setup_inputs(I, c)
        sfr = self.clause_frame(c, loc)
        for src in c.requires:
            t = self.eval_clause(I, c, src, sfr)
            path.assume(t.term())
        for n, src in c.lets.items():
            sfr.locals[n] = I.ev(c.expr(src), sfr)
        self.old_vals = self.snapshot_olds(I, c, sfr)
        entry_olds = self.old_vals
        path.ghost["entry_locals"] = dict(sfr.locals)
        if c.kind == "lemma":
            for n, src in c.ensures.items():
                self.check_clause(I, c, f"{c.target}.{n}", src, sfr)
            path.ghost["outcome"] = "lemma"
            return
        fv = self.resolve_target(I, c)
        self.number_loops(fv.node)
        self.ensure_roles(c, fv.node)
        args = []
        a = fv.node.args
        names = [p.arg for p in a.posonlyargs + a.args]
        kwargs = {}
        for p in names:
            if p in loc and p not in c.bind:
                args.append(loc[p])
            else:
                break
        for p in c.bind_varargs:
            args.append(loc[p])
        for p in c.bind_kwargs:
            kwargs[p] = loc[p]
        for p in names[len(args):]:
            if p in loc and p not in c.bind:
                kwargs[p] = loc[p]
        for p in a.kwonlyargs:
            if p.arg in loc:
                kwargs[p.arg] = loc[p.arg]
        for p, src in c.bind.items():
            kwargs[p] = sfr.locals[src]
        path.ghost["inputs"] = dict(loc)
        for p, src in c.bind.items():
            path.ghost["inputs"][p] = sfr.locals[src]
        # frame condition for containers that existed at entry: in-place updates are logged and must be covered by `modifies`
        path.ghost["entry_ref_mark"] = path.next_ref
        path.ghost["fn_log"] = []
        I.write_log = path.ghost["fn_log"]
        try:
            coro = I.call_func(fv, args, kwargs)
            result = I.await_(coro)
        except PyRaise as e:
            I.write_log = None
            self.old_vals = entry_olds
            self.finish_raise(I, c, e.exc, sfr)
            return
        finally:
            I.write_log = None
        self.old_vals = entry_olds
        self.finish_normal(I, c, result, sfr)

    def finish_normal(self, I, c, result, sfr):
        P = I.path
        P.ghost["outcome"] = "return"
        P.ghost["result"] = result
        sfr.locals["result"] = result
        for n, src in c.post_lets.items():
            sfr.locals[n] = I.ev(c.expr(src), sfr)
        for n, spec in c.exists.items():
            try:
                sfr.locals[n] = I.ev(c.expr(spec["witness"]), sfr)
            except PyRaise as e:
                P.oblige(f"{c.target}.exists.{n}", False, {"clause": f"witness {spec['witness']} raised {I.hobj(e.exc).cls.name}"})
                return
            self.check_clause(I, c, f"{c.target}.exists.{n}.len", f"len({n}) == ({spec['len']})", sfr)
        if c.returns is not None:
            self.check_clause(I, c, f"{c.target}.returns", f"result == ({c.returns})", sfr)
        for n, src in c.ensures.items():
            self.check_clause(I, c, f"{c.target}.post.{n}", src, sfr)
        for lv, src in c.assigns.items():
            self.check_clause(I, c, f"{c.target}.assign.{lv}", f"({lv}) == ({src})", sfr)
        self.check_frame(I, c, sfr, list(c.modifies) + list(c.assigns))

    def finish_raise(self, I, c, exc, sfr):
        P = I.path
        cls = I.hobj(exc).cls
        P.ghost["outcome"] = "raise:" + cls.qualname
        line = I.hobj(exc).meta.get("line")
        for q, spec in c.raises.items():
            ec = I.class_by_qual(q)
            if cls.issub(ec):
                spec = spec if isinstance(spec, dict) else {}
                sfr.locals["exc"] = exc
                if spec.get("when"):
                    self.check_clause(I, c, f"{c.target}.raises.{ec.name}.when", spec["when"], sfr)
                for n, src in spec.get("post", {}).items():
                    self.check_clause(I, c, f"{c.target}.raises.{ec.name}.{n}", src, sfr)
                mods = spec.get("modifies")
                self.check_frame(I, c, sfr, list(mods if mods is not None else c.modifies) + list(c.assigns), tag=f"raises.{ec.name}.")
                P.oblige(f"{c.target}.raises.{ec.name}", True, {"trivial": True})
                return
        P.oblige(f"{c.target}.noraise.{cls.name}", False,
                 {"unexpected_exception": cls.qualname, "line": line, "contract": c.target,
                  "clause": f"no {cls.qualname} escapes (raised at line {line})"})

    def lvalue_matches(self, pats, objname, field):
        full = f"{objname}.{field}"
        for p in pats:
            if p == full or p == objname + ".*" or (p.endswith(".**") and full.startswith(p[:-3])):
                return True
        return False

    def check_frame(self, I, c, sfr, mods, tag=""):
        P = I.path
        for ref, o in list(P.heap.items()):
            if o.kind == "inst" and o.meta.get("input"):
                init = o.meta["init_fields"]
                nm = o.meta["name"]
                for f in set(init) | set(o.fields):
                    if self.lvalue_matches(mods, nm, f) or f in o.meta.get("undeclared", ()):
                        continue
                    a, b = init.get(f), o.fields.get(f)
                    if a is b:
                        continue
                    if a is None or b is None:
                        P.oblige(f"{c.target}.{tag}frame.{nm}.{f}", False, {"clause": f"{nm}.{f} unchanged"})
                        continue
                    try:
                        t = self.same_value(I, a, b)
                    except Unsupported:
                        t = z3.BoolVal(False)
                    P.oblige(f"{c.target}.{tag}frame.{nm}.{f}", t, {"clause": f"{nm}.{f} unchanged"})
        # containers (queues, lists, dicts, sets) of the input objects that were updated in place
        mark = P.ghost.get("entry_ref_mark")
        touched = {w[1] for w in P.ghost.get("fn_log", []) if w[0] == "cont" and mark is not None and w[1] < mark}
        if touched:
            for ref, o in list(P.heap.items()):
                if o.kind == "inst" and o.meta.get("input"):
                    nm = o.meta["name"]
                    for f, v in o.meta["init_fields"].items():
                        alts = v.alts if isinstance(v, VUnion) else [(None, v)]
                        for _, x in alts:
                            if isinstance(x, VRef) and x.ref in touched and not self.lvalue_matches(mods, nm, f) and f not in o.meta.get("undeclared", ()):
                                P.oblige(f"{c.target}.{tag}frame.{nm}.{f}.contents", False, {"clause": f"contents of {nm}.{f} unchanged (updated in place)"})
        for (cq, attr), v0 in P.ghost.get("init_globals", {}).items():
            short = cq.split(".")[-1] + "." + attr
            if any(m in (short, cq + "." + attr) for m in mods):
                continue
            v1 = P.globals.get(("clsattr", cq, attr))
            if v1 is not v0:
                P.oblige(f"{c.target}.{tag}frame.{short}", ops.eq_values(I, v0, v1).term(), {"clause": f"{short} unchanged"})

    def same_value(self, I, a, b):
        if isinstance(a, VRef) and isinstance(b, VRef):
            if a.ref == b.ref:
                # same container object: contents compared with the entry snapshot is not tracked here
                return z3.BoolVal(True)
            return ops.eq_values(I, a, b).term()
        return z3.And(ops.eq_values(I, a, b).term(), self.same_type(a, b))

    def same_type(self, a, b):
        if isinstance(a, VUnion) or isinstance(b, VUnion):
            return z3.BoolVal(True)     # eq_values already distinguishes None / value
        return z3.BoolVal(type(a) is type(b) or {type(a), type(b)} <= {VInt, VBool})

    # ------------------------------------------------------------------------------------------
    # use of a callee contract at a call site
    # ------------------------------------------------------------------------------------------
    def apply(self, I: Interp, c: Contract, fv, loc):
        P = I.path
        self.used.add(c.target)
        if c.bind_kwargs and fv.node.args.kwarg is not None:
            kd = loc.get(fv.node.args.kwarg.arg)
            loc = dict(loc)
            for p in c.bind_kwargs:
                v = I.dict_get(kd, VStr(c=p), None)
                if v is None and p in c.defaults:
                    v = I.ev(c.expr(c.defaults[p]), Frame(c.module, locals={}, func="<spec>"))
                if v is None:
                    raise Unsupported(f"{c.target}: keyword argument {p} expected by the contract is missing at the call site")
                loc[p] = v
        if c.bind_varargs and fv.node.args.vararg is not None:
            va = loc.get(fv.node.args.vararg.arg)
            if not isinstance(va, VTuple) or len(va.items) < len(c.bind_varargs):
                raise Unsupported(f"{c.target}: positional arguments do not match the contract's bind_varargs")
            loc = dict(loc)
            for k, p in enumerate(c.bind_varargs):
                loc[p] = va.items[k]
        sfr = self.clause_frame(c, loc)
        caller = I.verifying
        # implicit pre-condition: a parameter the contract does not mention was verified at its default value only
        a_ = fv.node.args
        pos_ = a_.posonlyargs + a_.args
        defaults_ = dict(zip([p_.arg for p_ in pos_[len(pos_) - len(a_.defaults):]], a_.defaults))
        defaults_.update({p_.arg: d_ for p_, d_ in zip(a_.kwonlyargs, a_.kw_defaults) if d_ is not None})
        for pn, dnode in defaults_.items():
            if pn in c.params or pn in c.bind or pn in c.bind_kwargs or pn not in loc or pn in ("self", "cls"):
                continue
            if not isinstance(dnode, ast.Constant):
                continue
            try:
                same = ops.eq_values(I, loc[pn], I.ev(dnode, Frame(c.module, locals={}, func="<spec>")))
            except Unsupported:
                continue
            if same.c is True:
                continue
            P.oblige(f"{caller}.call.{c.target.split('.', 1)[-1]}.pre.default.{pn}", same.term(),
                     {"clause": f"{pn} == {ast.unparse(dnode)} (the contract of {c.target.split('.')[-1]} covers the default of `{pn}` only)", "callee": c.target})
            P.assume(same.term())
        # implicit pre-condition: an argument the contract types as an object of class Q is an instance of Q
        for pn, pt in c.params.items():
            if pn in loc and isinstance(pt, str) and (pt.startswith("obj:") or pt.startswith("sub:")):
                try:
                    want = I.class_by_qual(pt[4:])
                except Exception:       # noqa
                    continue
                av = loc[pn]
                alts = av.alts if isinstance(av, VUnion) else [(z3.BoolVal(True), av)]
                oks = []
                decided = True
                for g_, a_ in alts:
                    if isinstance(a_, VRef) and I.hobj(a_).kind == "inst" and I.hobj(a_).cls is not None:
                        if any(kc is want for kc in I.hobj(a_).cls.mro()):
                            oks.append(g_)
                    elif isinstance(a_, (VNone, VInt, VBool, VStr, VBytes, VTuple, VFloat)):
                        pass
                    else:
                        decided = False
                if decided and len(oks) != len(alts):
                    t_ = z3.Or(oks) if oks else z3.BoolVal(False)
                    if not P.known(t_):
                        P.oblige(f"{caller}.call.{c.target.split('.', 1)[-1]}.pre.type.{pn}", t_,
                                 {"clause": f"isinstance({pn}, {want.name})", "callee": c.target})
                        P.assume(t_)
        for k, src in enumerate(c.requires):
            try:
                t = self.eval_clause(I, c, src, sfr, assuming=False)
                P.oblige(f"{caller}.call.{c.target.split('.', 1)[-1]}.pre.{k}", t.term(), {"clause": src, "callee": c.target})
                P.assume(t.term())
            except PyRaise as e:
                P.oblige(f"{caller}.call.{c.target.split('.', 1)[-1]}.pre.{k}", False, {"clause": src, "callee": c.target})
        for n, src in c.lets.items():
            sfr.locals[n] = I.ev(c.expr(src), sfr)
        saved_old = self.old_vals
        olds = self.snapshot_olds(I, c, sfr)
        outcomes = ["return"] + list(c.raises)
        # drop exceptional outcomes whose `when` is infeasible
        k = P.choose(len(outcomes), f"call:{c.target.split('.')[-1]}") if len(outcomes) > 1 else 0
        self.old_vals = olds
        try:
            if isinstance(fv.node, ast.AsyncFunctionDef):
                from . import libmodels
                libmodels.env_step(I)       # the callee may have been suspended: time passed, peers may have closed
            if c.defines_on_return:
                t = self.eval_clause(I, c, c.defines_on_return, sfr)
                P.assume(t.term() if k == 0 else z3.Not(t.term()))
                P.assumption(f"definition: {c.defines_on_return} :<=> {c.target} returns normally (a deterministic function of its arguments)")
            if k == 0:
                P.explorer.stats.setdefault("callret", {}).setdefault(c.target, [0, 0])[0] += 1
                self.havoc_modifies(I, c, sfr, c.modifies)
                early = set()
                for n, src in c.ensures.items():
                    nm = {x.id for x in ast.walk(c.expr(src)) if isinstance(x, ast.Name)}
                    if "result" in nm or nm & set(c.post_lets) or nm & set(c.exists) or "events(" in src or "final(" in src or nm & set(c.assigns):
                        continue
                    if any(lv.split(".")[0] in nm for lv in list(c.assigns) + list(c.modifies)) and "old(" not in src and False:
                        continue
                    # clause about the state only: assumed before the result is built (it may make the result well defined)
                    if c.assigns or c.modifies:
                        continue
                    t = self.eval_clause(I, c, src, sfr)
                    P.assume(t.term())
                    early.add(n)
                for n, spec in c.exists.items():
                    ln = I.resolve(I.ev(c.expr(spec["len"]), sfr))
                    if not isinstance(ln, VInt):
                        raise Unsupported("exists length")
                    sfr.locals[n] = VBytes([View(z3.Const(fresh("ex_" + n), ARR), 0, ln.c if ln.c is not None else ln.as_int())])
                if c.returns is not None:
                    try:
                        result = I.ev(c.expr(c.returns), sfr)
                    except PyRaise as e:
                        raise Unsupported(f"`returns` of {c.target} raised {I.hobj(e.exc).cls.name} at a call site")
                elif c.rtype:
                    result = self.make(I, c.rtype, "ret_" + c.target.split(".")[-1])
                else:
                    if any(isinstance(x_, ast.Name) and x_.id == "result" for src_ in c.ensures.values() for x_ in ast.walk(c.expr(src_))):
                        # the clauses speak about a result but the contract gives call sites no value for it: assuming them with None
                        # would silently cut every path on which the real result is not None
                        raise Unsupported(f"contract of {c.target} constrains `result` but declares neither returns= nor rtype= (no value for its call sites)")
                    result = NONE
                sfr.locals["result"] = result
                for lv, src in c.assigns.items():
                    v = I.ev(c.expr(src), sfr)
                    tgt = c.expr(lv)
                    I.assign(tgt, v, sfr)
                tainted = set()
                names = set(c.post_lets)

                def uses(src, pool):
                    return any(isinstance(x, ast.Name) and x.id in pool for x in ast.walk(c.expr(src)))
                # pass 1: clauses that do not depend on post_let values (they may be what makes the lets well defined)
                for n, src in c.ensures.items():
                    if "events(" in src or "final(" in src or uses(src, names) or n in early:
                        continue
                    t = self.eval_clause(I, c, src, sfr)
                    P.assume(t.term())
                for n, src in c.post_lets.items():
                    if "events(" in src or uses(src, tainted):
                        tainted.add(n)
                        continue
                    try:
                        sfr.locals[n] = I.ev(c.expr(src), sfr)
                    except PyRaise as e:
                        raise Unsupported(f"post_let {n} of {c.target} raised {I.hobj(e.exc).cls.name} at a call site")
                for n, src in c.ensures.items():
                    if "events(" in src or "final(" in src or uses(src, tainted) or not uses(src, names):
                        continue        # event clauses speak about the callee's own ghost trace; the caller gets the `emits` instead
                    t = self.eval_clause(I, c, src, sfr)
                    P.assume(t.term())
                for ev_name, src in c.emits.items():
                    v = self.snapshot(I, I.ev(c.expr(src), sfr), deep_inst=True)
                    P.ghost.setdefault("events", {}).setdefault(ev_name, []).append(v)
                cur = self.contracts.get(I.verifying) if I.verifying else None
                if cur is not None and c.target in cur.scenario:
                    t = self.eval_clause(I, cur, cur.scenario[c.target], Frame(cur.module, locals={"result": result, **loc}, func="<spec>"))
                    P.assume(t.term())
                    P.assumption(f"scenario hypothesis of {cur.target}: after every {c.target.split('.')[-1]} call: {cur.scenario[c.target]}")
                # vacuity guard: a callee contract whose normal return contradicts the caller's state at every call site would
                # silently cut every path through the call (counted here, judged when the target's exploration is complete)
                if P._check(z3.BoolVal(True)) != "unsat":
                    P.explorer.stats["callret"][c.target][1] += 1
                return result
            q = outcomes[k]
            spec = c.raises[q] if isinstance(c.raises[q], dict) else {}
            mods = spec.get("modifies")
            self.havoc_modifies(I, c, sfr, mods if mods is not None else c.modifies)
            if spec.get("when"):
                t = self.eval_clause(I, c, spec["when"], sfr)
                P.assume(t.term())
            for lv, src in spec.get("assigns", {}).items():
                I.assign(c.expr(lv), I.ev(c.expr(src), sfr), sfr)
            for ev_name, src in spec.get("emits", {}).items():
                try:
                    v = I.resolve(I.ev(c.expr(src), sfr))
                except PyRaise as e:
                    raise Unsupported(f"emits of {c.target} raised {I.hobj(e.exc).cls.name}")
                if isinstance(v, VRef) and I.hobj(v).kind == "list":
                    for x in I.hobj(v).items:
                        P.ghost.setdefault("events", {}).setdefault(ev_name, []).append(self.snapshot(I, x, deep_inst=True))
                else:
                    P.ghost.setdefault("events", {}).setdefault(ev_name, []).append(self.snapshot(I, v, deep_inst=True))
            for n, src in spec.get("post", {}).items():
                if "events(" in src:
                    continue
                t = self.eval_clause(I, c, src, sfr)
                P.assume(t.term())
            if P._check(z3.BoolVal(True)) == "unsat":
                raise PathEnd(f"exceptional outcome {q} of {c.target} is infeasible here")
            ec = I.class_by_qual(q)
            exc = I.new_exc(ec, [VStr(c=f"raised by contract of {c.target}")])
            raise PyRaise(exc)
        finally:
            self.old_vals = saved_old

    def havoc_modifies(self, I, c, sfr, mods):
        for lv in mods:
            if lv.endswith(".*"):
                base = I.resolve(I.ev(c.expr(lv[:-2]), sfr))
                if isinstance(base, VNone):
                    continue
                if not isinstance(base, VRef) or I.hobj(base).cls is None:
                    raise Unsupported(f"modifies {lv}: not an object")
                for f, ft in self.class_fields(I.hobj(base).cls).items():
                    I.setattr_(base, f, self.make(I, ft, f"havoc_{lv[:-2]}.{f}"))
                continue
            if lv.endswith(".**"):
                raise Unsupported("deep wildcard modifies at a call site")
            tgt = c.expr(lv)
            if isinstance(tgt, ast.Attribute):
                base = I.resolve(I.ev(tgt.value, sfr))
                if isinstance(base, VNone):
                    continue
                if isinstance(base, VRef):
                    o = I.hobj(base)
                    ft = self.class_fields(o.cls).get(tgt.attr) if o.cls else None
                    if ft is None:
                        raise Unsupported(f"modifies {lv}: no declared field type")
                    I.setattr_(base, tgt.attr, self.make(I, ft, f"havoc_{lv}"))
                    continue
                if isinstance(base, ClassInfo):
                    q = base.qualname + "." + tgt.attr
                    t = c.globals.get(q)
                    if t is None:
                        raise Unsupported(f"modifies {lv}: no declared type")
                    I.setattr_(base, tgt.attr, self.make(I, t, f"havoc_{lv}"))
                    continue
            raise Unsupported(f"modifies target {lv}")

    # ------------------------------------------------------------------------------------------
    # loops
    # ------------------------------------------------------------------------------------------
    def loop_contract(self, I, fr, node):
        q = fr.func
        if q is None:
            return None
        c = self.contracts.get(q)
        if I.verifying is not None and I.verifying.split("#")[0] == q:
            c = self.contracts.get(I.verifying) or c
        if c is None or not self.merged_loops(c):
            return self.helper_loop_contract(I, fr, node)
        k = getattr(node, "_pyvc_ord", None)
        if k is None:
            # function inlined without having been numbered
            try:
                fv = self.resolve_target(I, c)
                self.number_loops(fv.node)
            except Unsupported:
                return None
            k = getattr(node, "_pyvc_ord", None)
            if k is None:
                # a loop that is not a statement of the function (the loop a `next(genexpr, default)` abbreviates): it may take a
                # loop contract of the verified function that none of the function's own loops takes (by match key)
                return self.helper_loop_contract(I, fr, node)
        fn_ = getattr(node, "_pyvc_fn", None)
        if fn_ is not None:
            self.ensure_roles(c, fn_)
        loops = c.loops_eff if c.loops_eff is not None else self.merged_loops(c)
        if not loops:
            return None
        order = getattr(node, "_pyvc_all", None)
        if order is not None and all(l.get("match") for l in loops.values()):
            # attach loop contracts by their match keys, order preserving (a deleted or added loop does not shift the others);
            # more than one best alignment -> the contracts must be re-attached by hand (undecided, never a refutation)
            amap = self.align_loops(c, loops, order)
            ck = amap.get(k)
            if ck is None:
                return None
            return (c, ck, loops[ck])
        lc = loops.get(k)
        if lc is None:
            return None
        want = lc.get("match")
        if want:
            src = self.loop_src(node)
            if want not in src:
                raise Unsupported(f"loop contract {c.target}.loop{k} expects a loop over `{want}` but the loop at line {node.lineno} is over `{src}` "
                                  f"(the function's loops changed; the contract must be re-attached)")
        return (c, k, lc)

    def helper_loop_contract(self, I, fr, node):
        """a loop inside a function without contract that the function under verification calls (a loop extracted into a helper):
        a loop contract of the verified function that none of its own loops takes is attached here by its match key"""
        if I.verifying is None or getattr(fr, "fnode", None) is None:
            return None
        cv = self.contracts.get(I.verifying)
        if cv is None or cv.kind == "lemma":
            return None
        loops_all = {k_: dict(v_) for k_, v_ in self.merged_loops(cv).items()}
        if not loops_all or not all(l.get("match") for l in loops_all.values()):
            return None
        try:
            own = self.resolve_target(I, cv).node
        except Unsupported:
            return None
        fn_ = fr.fnode
        if fn_ is own:
            return None
        own_order = self.number_loops(own)
        self.ensure_roles(cv, own)
        own_loops = cv.loops_eff if cv.loops_eff is not None else loops_all
        taken = set(self.align_loops(cv, own_loops, own_order).values()) if own_order else set()
        free = {k_: v_ for k_, v_ in loops_all.items() if k_ not in taken}
        if not free:
            return None
        order = self.number_loops(fn_)
        k = getattr(node, "_pyvc_ord", None)
        roles = dict(cv.local_roles)
        if "#" in cv.target:
            base = self.contracts.get(cv.target.split("#")[0])
            if base is not None:
                roles = {**base.local_roles, **roles}
        helper_names = Interp.function_locals(fn_)
        # program locals that the free loop contracts mention and the helper does not have: identified by their roles, in the helper
        rename = {}
        for phase in (0, 1):
            for name, role in roles.items():
                if name in helper_names or (role.startswith("loop")) != (phase == 1):
                    continue
                pat = re.compile(r"\b%s\b" % re.escape(name))
                if not any(pat.search(str(x)) for lc_ in free.values() for x in self._loop_texts(lc_)):
                    continue
                fr_ = {k_: self._rename_loop(v_, rename) for k_, v_ in free.items()}
                new = None
                for alt in [role] + (["loop%s.iter" % kk for kk in free] if not role.startswith("loop") else []):
                    new = self.resolve_role(cv, fn_, order, fr_, alt, cache_tag="@helper")
                    if new is not None:
                        break
                if new is None:
                    return None
                rename[name] = new
        free = {k_: self._rename_loop(v_, rename) for k_, v_ in free.items()}
        amap = self.align_loops(cv, free, order, cache_tag="@helper:" + (fr.func or ""))
        ck = amap.get(k)
        if ck is None:
            return None
        lc = dict(free[ck])
        lc["_rename"] = rename
        lc["_helper"] = True
        return (cv, ck, lc)

    @staticmethod
    def _loop_texts(lc):
        out = [lc.get("match") or "", lc.get("variant") or ""]
        for sec in ("invariant", "assume"):
            out += list(lc.get(sec, []))
        for sec in ("define", "ghost_init", "ghost_step", "step_ensures", "step_hints", "havoc"):
            out += list(lc.get(sec, {}).values()) + list(lc.get(sec, {}).keys())
        out += list(lc.get("modifies", []))
        return out

    @staticmethod
    def _rename_loop(lc, rename):
        if not rename:
            return dict(lc)
        lc2 = dict(lc)
        for sec in ("define", "havoc"):
            if sec in lc:
                lc2[sec] = {rename.get(n, n): v for n, v in lc[sec].items()}
        if lc.get("match"):
            for old_, new_ in rename.items():
                lc2["match"] = re.sub(r"\b%s\b" % re.escape(old_), new_, lc2["match"])
        return lc2

    @staticmethod
    def loop_src(node):
        return ast.unparse(node.iter if isinstance(node, (ast.For, ast.AsyncFor)) else node.test)

    def align_loops(self, c, loops, order, cache_tag=""):
        key = (c.target + cache_tag, id(order), tuple(sorted(loops)))
        cache = self.__dict__.setdefault("_align_cache", {})
        if key in cache:
            return cache[key]
        ck = sorted(loops, key=lambda x: int(x))
        srcs = [self.loop_src(n) for n in order]
        n, m = len(srcs), len(ck)
        if n == 1 and m == 1:
            cache[key] = {0: ck[0]}     # one loop, one loop contract: the key is not needed to tell them apart
            return cache[key]
        # best[i][j] = (size, count) of maximum order-preserving matchings of srcs[i:] with ck[j:]
        best = [[(0, 1)] * (m + 1) for _ in range(n + 1)]
        for i in range(n - 1, -1, -1):
            for j in range(m - 1, -1, -1):
                opts = {}
                # skip contract j / skip loop i / match; count distinct matchings (as sets of pairs), not derivations
                cand = []
                if loops[ck[j]]["match"] in srcs[i]:
                    sz, cnt = best[i + 1][j + 1]
                    cand.append((sz + 1, cnt, "m"))
                cand.append((best[i + 1][j][0], best[i + 1][j][1], "si"))
                cand.append((best[i][j + 1][0], best[i][j + 1][1], "sj"))
                top = max(x[0] for x in cand)
                # distinct matchings: those using pair (i,j) + those not using loop i + those using loop i but not contract j (and not pair (i,j))
                cnt = 0
                if cand[0][2] == "m" and cand[0][0] == top:
                    cnt += cand[0][1]
                a = best[i + 1][j]
                b = best[i][j + 1]
                ab = best[i + 1][j + 1]
                # matchings avoiding pair (i,j): union of (skip i) and (skip j), intersection = skip both
                cnt_skip = (a[1] if a[0] == top else 0) + (b[1] if b[0] == top else 0) - (ab[1] if ab[0] == top else 0)
                cnt += max(cnt_skip, 0)
                best[i][j] = (top, max(cnt, 1))
        size, count = best[0][0]
        if count > 1:
            raise Unsupported(f"loop contracts of {c.target} can be attached to the function's loops in {count} ways "
                              f"(loops now: {srcs}); the contract must be re-attached")
        amap = {}
        i = j = 0
        while i < n and j < m:
            if loops[ck[j]]["match"] in srcs[i] and best[i + 1][j + 1][0] + 1 == best[i][j][0]:
                amap[i] = ck[j]
                i += 1
                j += 1
            elif best[i + 1][j][0] == best[i][j][0]:
                i += 1
            else:
                j += 1
        cache[key] = amap
        return amap

    @staticmethod
    def assigned_only_on_exit(stmts, name):
        """every assignment to `name` in the loop body is followed, in its own block, by statements that leave the loop
        (break / return / raise) without any continue: at the head of an iteration the name still has its value from before the loop"""
        def binds(st):
            for n_ in ast.walk(st):
                if isinstance(n_, ast.Name) and isinstance(n_.ctx, (ast.Store, ast.Del)) and n_.id == name:
                    return True
                if isinstance(n_, ast.ExceptHandler) and n_.name == name:
                    return True
            return False

        def leaves(rest):
            if not rest or any(isinstance(x, ast.Continue) for st in rest for x in ast.walk(st)):
                return False
            return isinstance(rest[-1], (ast.Break, ast.Return, ast.Raise)) and not any(
                isinstance(x, (ast.For, ast.While, ast.AsyncFor, ast.Try, ast.If)) for st in rest for x in ast.walk(st))

        def block(stmts_):
            for i_, st in enumerate(stmts_):
                if isinstance(st, (ast.For, ast.While, ast.AsyncFor)):
                    if binds(st):
                        return False
                    continue
                if isinstance(st, (ast.If, ast.Try, ast.With, ast.AsyncWith)):
                    subs = [st.body, getattr(st, "orelse", []), getattr(st, "finalbody", [])] + [h.body for h in getattr(st, "handlers", [])]
                    heads = [getattr(st, "test", None)] + [it.context_expr for it in getattr(st, "items", [])]
                    if any(h is not None and binds(h) for h in heads) or any(h.name == name for h in getattr(st, "handlers", []) if h.name):
                        return False
                    if not all(block(b_) for b_ in subs if b_):
                        return False
                    continue
                if binds(st) and not leaves(stmts_[i_ + 1:]):
                    return False
            return True
        return block(stmts)

    @staticmethod
    def assigned_names(stmts):
        out = set()
        for s in stmts:
            for n in ast.walk(s):
                if isinstance(n, ast.Name) and isinstance(n.ctx, ast.Store):
                    out.add(n.id)
                elif isinstance(n, ast.ExceptHandler) and n.name:
                    out.add(n.name)
        return out

    def fresh_like(self, I, v, name):
        if isinstance(v, VInt):
            if v.enum is not None:
                return self.make(I, "enum:" + v.enum.qualname, name)
            return VInt(i=z3.Int(fresh(name)))
        if isinstance(v, VBool):
            return VBool(t=z3.Bool(fresh(name)))
        if isinstance(v, VFloat):
            return VFloat(t=z3.Real(fresh(name)))
        if isinstance(v, VBytes):
            return self.make(I, v.kind, name)
        if isinstance(v, VStr):
            return VStr(t=z3.Const(fresh(name), STR))
        # None before the loop says nothing about the value after some iterations: unknown unless the loop contract types it
        return VPoison(name)

    def eval_pre(self, I, node, fr):
        k = ast.unparse(node.args[0])
        if self.pre_vals is None or k not in self.pre_vals:
            raise Unsupported(f"pre({k}) outside a loop step clause")
        return self.pre_vals[k]

    def run_loop(self, I: Interp, lcinfo, node, fr, it=None):
        c, k, lc = lcinfo
        P = I.path
        P.ghost.setdefault("loops_reached", set()).add((c.target, k))
        saved = c.rename
        if lc.get("_rename") is not None:
            c.rename = lc["_rename"]
        try:
            return self._run_loop(I, lcinfo, node, fr, it)
        finally:
            c.rename = saved
            if lc.get("_helper"):
                # the loop ran in a helper frame: keep its ghosts for final(..) clauses of the verified function
                g = P.ghost.setdefault("loop_ghosts", {})
                names_ = list(lc.get("ghost_init", {})) + ["_i"] + list(lc.get("havoc", {}))
                if isinstance(node, (ast.For, ast.AsyncFor)) and isinstance(node.target, ast.Name):
                    names_.append(node.target.id)
                inv_ = {v_: k_ for k_, v_ in (lc.get("_rename") or {}).items()}
                for n_ in names_:
                    if n_ in fr.locals and n_.isidentifier():
                        g[inv_.get(n_, n_)] = fr.locals[n_]

    def _run_loop(self, I: Interp, lcinfo, node, fr, it=None):
        c, k, lc = lcinfo
        P = I.path
        tag = f"{c.target}.loop{k}"
        is_for = isinstance(node, (ast.For, ast.AsyncFor))
        outer = None
        if I.verifying is not None and I.verifying.split("#")[0] == c.target.split("#")[0] and P.ghost.get("entry_locals"):
            outer = Frame(c.module, locals=P.ghost["entry_locals"], func="<spec>")      # contract-level names (ghost parameters, lets)
        sfr = Frame(c.module, locals=fr.locals, parent=outer, func="<spec>")    # shares the locals of the function
        dom = None
        if is_for:
            dom = self.loop_domain(I, it)
            if dom["n"].c == 0 or (dom["n"].c is None and P.known(dom["n"].as_int() <= 0)):
                I.exec_block(node.orelse, fr)
                return
        # ghost initialisation
        for g, src in lc.get("ghost_init", {}).items():
            fr.locals[g] = I.ev(c.expr(src), sfr)
        if is_for:
            fr.locals["_i"] = mkint(0)
        for j, src in enumerate(lc.get("invariant", [])):
            self.check_clause(I, c, f"{tag}.init.{j}", src, sfr)
        for n_, src in lc.get("define", {}).items():
            self.check_clause(I, c, f"{tag}.init.define.{n_}", f"({n_}) == ({src})", sfr)
        body_names = self.assigned_names(node.body)
        hav_names = [n for n in sorted(body_names) if n in fr.locals and not (n not in lc.get("havoc", {}) and self.assigned_only_on_exit(node.body, n))] \
            + [g for g in lc.get("ghost_init", {}) if g not in body_names]
        hav_names += [n for n in lc.get("havoc", {}) if n.isidentifier() and n in fr.locals and n not in hav_names]
        hav_types = lc.get("havoc", {})
        which = P.choose(2, f"loop{k}")
        # havoc
        pre_vals = {n: fr.locals[n] for n in hav_names}
        target_prev = fr.locals.get(node.target.id) if is_for and isinstance(node.target, ast.Name) else None
        for n in hav_names:
            if n in lc.get("define", {}):
                continue
            if n in hav_types:
                fr.locals[n] = self.make(I, hav_types[n], n)
            else:
                fr.locals[n] = self.fresh_like(I, pre_vals[n], n)
        for n in sorted(body_names):
            if n not in fr.locals and n not in lc.get("ghost_init", {}) and n != "_i":
                fr.locals[n] = VMaybeUnbound(n, is_for)
        hav_lvs = []
        for lv in lc.get("modifies", []):
            tgt = c.expr(lv)
            if not isinstance(tgt, ast.Attribute):
                raise Unsupported("loop modifies must be attribute paths")
            base = I.resolve(I.ev(tgt.value, sfr))
            t = hav_types.get(lv)
            if isinstance(base, VNone):
                continue
            if isinstance(base, VRef) and I.hobj(base).kind == "inst" and tgt.attr not in I.hobj(base).fields \
                    and tgt.attr not in self.class_fields(I.hobj(base).cls):
                continue        # this object has no such field (e.g. a V2 protocol has no packet counter)
            if t is None:
                o = I.hobj(base) if isinstance(base, VRef) else None
                t = self.class_fields(o.cls).get(tgt.attr) if o is not None and o.cls else None
            if lv in lc.get("define", {}):
                hav_lvs.append((base, tgt.attr))
                continue
            if t is None:
                cur = I.getattr_(base, tgt.attr)
                nv = self.fresh_like(I, cur, lv)
            else:
                nv = self.make(I, t, lv)
            I.in_havoc = True
            try:
                I.setattr_(base, tgt.attr, nv)
            finally:
                I.in_havoc = False
            hav_lvs.append((base, tgt.attr))
        hav_sizes = []
        for (b_, a_) in hav_lvs:
            cur = I.getattr_(b_, a_)
            hav_sizes.append(len(I.hobj(cur).items) if isinstance(cur, VRef) and I.hobj(cur).kind in ("symdict", "symset") else None)
        if is_for:
            i = z3.Int(fresh("_i"))
            P.assume(i >= 0)
            fr.locals["_i"] = VInt(i=i, lo=0, hi=MAXLEN)
        for n, src in lc.get("define", {}).items():
            v = I.ev(c.expr(src), sfr)
            tgt = c.expr(n)
            I.assign(tgt, v, sfr)
        for src in lc.get("invariant", []):
            t = self.eval_clause(I, c, src, sfr)
            P.assume(t.term())
        if which == 0:
            # an arbitrary iteration
            if is_for:
                P.assume(ops.int_cmp("<", fr.locals["_i"], dom["n"]).term())
                I.assign(node.target, dom["elem"](fr.locals["_i"]), fr)
            else:
                if not I.cond(I.ev(node.test, fr), "loopguard"):
                    raise PathEnd("guard false in arbitrary iteration")
            for src in lc.get("assume", []):
                t = self.eval_clause(I, c, src, sfr)
                P.assume(t.term())
                P.assumption(f"{tag}: per-iteration instance of the function's well-formedness pre-condition: {src}")
            pre_srcs = list(lc.get("step_ensures", {}).values()) + list(lc.get("ghost_step", {}).values()) + list(lc.get("step_hints", {}).values())
            pre_vals = {}
            for src in pre_srcs:
                for n_ in ast.walk(c.expr(src)):
                    if isinstance(n_, ast.Call) and isinstance(n_.func, ast.Name) and n_.func.id == "pre":
                        kk = ast.unparse(n_.args[0])
                        if kk not in pre_vals:
                            pre_vals[kk] = self.snapshot(I, I.ev(n_.args[0], sfr))
            variant0 = I.ev(c.expr(lc["variant"]), sfr) if lc.get("variant") else None
            P.ghost["loop_ref_mark"] = P.next_ref
            saved_log = I.write_log
            I.write_log = []
            try:
                try:
                    I.exec_block(node.body, fr)
                except ContinueSig:
                    pass
            except BreakSig:
                I.write_log = saved_log
                return
            except (ReturnSig, PyRaise):
                I.write_log = saved_log
                raise
            log = I.write_log
            I.write_log = saved_log
            self.check_writes(I, c, tag, log, fr, set(hav_names) | set(body_names), hav_lvs)
            for (b_, a_), n0 in zip(hav_lvs, hav_sizes):
                cur = I.getattr_(b_, a_)
                if n0 is not None and isinstance(cur, VRef) and len(I.hobj(cur).items) != n0:
                    raise Unsupported(f"{tag}: key universe of {a_} is incomplete (the loop body added a new key)")
            if is_for:
                fr.locals["_i"] = ops._arith(I, "+", fr.locals["_i"], mkint(1))
            saved_pre = self.pre_vals
            self.pre_vals = pre_vals
            try:
                for g, src in lc.get("ghost_step", {}).items():
                    fr.locals[g] = I.ev(c.expr(src), sfr)
                for n, src in lc.get("step_hints", {}).items():
                    # intermediate assertion: proved first, then available to the clauses that follow
                    self.check_clause(I, c, f"{tag}.step.hint.{n}", src, sfr)
                    P.assume(self.eval_clause(I, c, src, sfr).term())
                for n, src in lc.get("step_ensures", {}).items():
                    self.check_clause(I, c, f"{tag}.step.{n}", src, sfr)
            finally:
                self.pre_vals = saved_pre
            for n, src in lc.get("define", {}).items():
                self.check_clause(I, c, f"{tag}.step.define.{n}", f"({n}) == ({src})", sfr)
            for j, src in enumerate(lc.get("invariant", [])):
                self.check_clause(I, c, f"{tag}.step.{j}", src, sfr)
            if variant0 is not None:
                v1 = I.ev(c.expr(lc["variant"]), sfr)
                P.oblige(f"{tag}.variant", z3.And(ops.int_cmp("<", v1, variant0).term(), ops.int_cmp(">=", variant0, mkint(0)).term()),
                         {"clause": f"variant {lc['variant']} decreases and is bounded below"})
            raise PathEnd("end of arbitrary iteration")
        # loop exit
        if is_for:
            P.assume(ops.int_cmp("==", fr.locals["_i"], dom["n"]).term())
            if isinstance(node.target, ast.Name):
                # the loop variable keeps the last element (unbound if there was no iteration); decided when it is read
                n_exit = dom["n"]
                prev_ = target_prev
                if isinstance(prev_, VMaybeUnbound):
                    prev_ = None
                fr.locals[node.target.id] = VMaybeUnbound(node.target.id, True, count=n_exit, prev=prev_,
                                                          last=lambda: dom["elem"](ops._arith(I, "-", n_exit, mkint(1))))
            ends = dom.get("raises_at_end") or []
            if ends:
                kk = P.choose(1 + len(ends), "generator_end")
                if kk:
                    raise PyRaise(I.new_exc(I.class_by_qual(ends[kk - 1]), [VStr(c="raised by the generator")]))
        else:
            if I.cond(I.ev(node.test, fr), "loopguard"):
                raise PathEnd("guard true at exit")
        I.exec_block(node.orelse, fr)

    def check_writes(self, I, c, tag, log, fr, names, hav_lvs):
        hv = {(b.ref if isinstance(b, VRef) else id(b), a) for b, a in hav_lvs}
        for w in log:
            if w[0] == "local":
                if w[1] == id(fr) and w[2] not in names:
                    raise Unsupported(f"{tag}: loop body assigns local {w[2]} that was not havoc'd")
            elif w[0] == "field":
                o = I.path.heap.get(w[1])
                if o is not None and o.meta.get("loop_fresh"):
                    continue
                if (w[1], w[2]) not in hv and not self._fresh_since(I, w[1]):
                    raise Unsupported(f"{tag}: loop body writes field {w[2]} of object {w[1]} not listed in the loop's modifies")
            elif w[0] == "cont":
                owned = False
                for b_, a_ in hav_lvs:
                    cur = I.getattr_(b_, a_)
                    if isinstance(cur, VRef) and I.hobj(cur).kind == "ext":
                        it_ = I.hobj(cur).meta.get("items")
                        if isinstance(it_, VRef) and it_.ref == w[1]:
                            owned = True
                if owned:
                    continue
                if not self._fresh_since(I, w[1]) and not any(isinstance(I.getattr_(b, a), VRef) and I.getattr_(b, a).ref == w[1] for b, a in hav_lvs):
                    loc_ok = any(isinstance(v, VRef) and v.ref == w[1] for n, v in fr.locals.items() if n in names)
                    if not loc_ok:
                        raise Unsupported(f"{tag}: loop body mutates container {w[1]} not covered by the loop's modifies")
            elif w[0] == "clsattr":
                raise Unsupported(f"{tag}: loop body writes class attribute {w[2]}")

    def _fresh_since(self, I, ref):
        return ref >= I.path.ghost.get("loop_ref_mark", 1 << 60)

    def loop_domain(self, I, it):
        it = I.resolve(it)
        if isinstance(it, VBytes):
            n = B.b_len(I, None, [it], {})
            return {"n": n, "elem": lambda i: I.getitem(it, i)}
        if isinstance(it, VRef):
            o = I.hobj(it)
            if o.kind == "ext" and o.meta.get("tag") == "range":
                lo, hi, st = o.meta["lo"], o.meta["hi"], o.meta["step"]
                if st.c != 1:
                    raise Unsupported("range step")
                n = ops._arith(I, "-", hi, lo)
                # negative span = zero iterations
                nn = B.b_minmax(I, type("F", (), {"name": "max"})(), [n, mkint(0)], {})
                nn = I.resolve(nn) if not isinstance(nn, VUnion) else ops.union_of(nn.alts)
                if isinstance(nn, VUnion):
                    raise Unsupported("range bound")
                return {"n": nn, "elem": lambda i: ops._arith(I, "+", lo, i)}
            if o.kind == "ext" and o.meta.get("tag") == "json":
                from . import libmodels
                jr = it
                return {"n": libmodels.json_len(I, jr), "elem": lambda i: libmodels.json_child(I, jr, i)}
            if o.kind == "symset":
                from . import symlist
                it = symlist.items_view(I, it, o)
                o = I.hobj(it)
            if o.kind == "symlist":
                from . import symlist
                return {"n": o.meta["len"], "elem": lambda i: symlist.getitem(I, it, o, i), "raises_at_end": o.meta.get("raises_at_end")}
            if o.kind in ("list", "set"):
                n = mkint(len(o.items))
                return {"n": n, "elem": lambda i: I.getitem(I.new_list(o.items), i)}
        raise Unsupported(f"loop domain {it!r}")
