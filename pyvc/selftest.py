"""setup_cmd: check that the tools the checks need are present and that the engine refutes a false clause."""
import shutil
import subprocess
import sys


def main():
    import z3
    ok = True
    x = z3.BitVec("x", 8)
    s = z3.Solver()
    s.add((x & 0x0F) > 15)
    if s.check() != z3.unsat:
        print("selftest: z3 gave a wrong answer")
        ok = False
    s = z3.Solver()
    s.add(x + 1 == 0)
    if s.check() != z3.sat:
        print("selftest: z3 cannot find a model")
        ok = False
    for tool in ("/usr/bin/cvc5", "/venv/bin/python"):
        if not shutil.which(tool):
            print("selftest: missing", tool)
            ok = False
    r = subprocess.run(["/venv/bin/python", "-c", "import msmart, Crypto"], capture_output=True, text=True)
    if r.returncode != 0:
        print("selftest: /venv/bin/python cannot import msmart", r.stderr[-300:])
        ok = False
    print("selftest", "ok" if ok else "FAILED", "z3", z3.get_version_string())
    return 0 if ok else 1


if __name__ == "__main__":
    sys.exit(main())
