"""Path exploration by decision replay, path condition, solver access, obligations."""
from __future__ import annotations

import time

import z3

from .values import HObj, Unsupported, reset_fresh

RLIMIT_FEAS = 3_000_000        # deterministic resource limit for feasibility checks
TIMEOUT_OBL_MS = 20_000


class PathEnd(Exception):
    """the current path ends here (infeasible, or deliberately cut after a loop-body check)"""


class Obligation:
    __slots__ = ("name", "pc", "goal", "status", "secs", "model", "info", "backend", "smt2")

    def __init__(self, name, pc, goal, info=None):
        self.name, self.pc, self.goal, self.info = name, list(pc), goal, info or {}
        self.status = None      # 'proved' | 'refuted' | 'unknown'
        self.secs = 0.0
        self.model = None
        self.backend = None
        self.smt2 = None


_feas_cache = {}


def clear_caches():
    _feas_cache.clear()


class Path:
    def __init__(self, prefix, explorer):
        self.prefix = prefix
        self.decisions = []
        self.explorer = explorer
        self.pc = []
        self.solver = z3.Solver()
        self.solver.set("rlimit", RLIMIT_FEAS)
        self.heap = {}
        self.next_ref = 1
        self.globals = {}           # (module, name) -> V   per-path evaluated globals / class attrs
        self.obligations = []
        self.assumptions = set()
        self.ghost = {}
        self.trace = []             # human-readable decision trace
        self.facts_done = set()
        self.memo = {}              # opaque function memo (structural key -> value)
        self.depth = 0

    # -- heap ----------------------------------------------------------------------------------
    def alloc(self, obj: HObj) -> int:
        r = self.next_ref
        self.next_ref += 1
        self.heap[r] = obj
        return r

    # -- decisions -----------------------------------------------------------------------------
    def choose(self, n, label=""):
        pos = len(self.decisions)
        if pos < len(self.prefix):
            k = self.prefix[pos]
        else:
            k = 0
            for j in range(n - 1, 0, -1):
                self.explorer.push(self.decisions + [j])
        self.decisions.append(k)
        self.trace.append(f"{label}={k}")
        return k

    # -- path condition --------------------------------------------------------------------------
    def assume(self, t):
        if isinstance(t, bool):
            if not t:
                raise PathEnd("assume false")
            return
        t = z3.simplify(t)
        if z3.is_true(t):
            return
        if z3.is_false(t):
            raise PathEnd("assume false")
        self.pc.append(t)
        self.solver.add(t)

    def _check(self, extra):
        key = (tuple(x.get_id() for x in self.pc), extra.get_id())
        ent = _feas_cache.get(key)
        if ent is None:
            res = self.solver.check(extra)
            r = "sat" if res == z3.sat else "unsat" if res == z3.unsat else "unknown"
            # keep the terms alive so that their ids stay unique
            _feas_cache[key] = (r, tuple(self.pc), extra)
            self.explorer.stats["feas_checks"] += 1
            return r
        return ent[0]

    def feasible(self, t):
        """may t hold under the path condition?  unknown counts as feasible (conservative)"""
        if isinstance(t, bool):
            return t
        t = z3.simplify(t)
        if z3.is_true(t):
            return True
        if z3.is_false(t):
            return False
        return self._check(t) != "unsat"

    def known(self, t):
        """is t valid under the path condition?"""
        if isinstance(t, bool):
            return t
        t = z3.simplify(t)
        if z3.is_true(t):
            return True
        if z3.is_false(t):
            return False
        return self._check(z3.Not(t)) == "unsat"

    def branch(self, t, label="br"):
        """decide a symbolic condition; forks the path when both sides are feasible"""
        if isinstance(t, bool):
            return t
        t = z3.simplify(t)
        if z3.is_true(t):
            return True
        if z3.is_false(t):
            return False
        ft = self._check(t) != "unsat"
        ff = self._check(z3.Not(t)) != "unsat"
        if ft and ff:
            k = self.choose(2, label)
            if k == 0:
                self.assume(t)
                return True
            self.assume(z3.Not(t))
            return False
        if ft:
            return True
        if ff:
            return False
        raise PathEnd("infeasible")

    # -- obligations -----------------------------------------------------------------------------
    def oblige(self, name, goal, info=None):
        if isinstance(goal, bool):
            goal = z3.BoolVal(goal)
        ob = Obligation(name, self.pc, goal, info)
        ob.info.setdefault("path", list(self.decisions))
        self.obligations.append(ob)
        return ob

    def assumption(self, text):
        self.assumptions.add(text)


class Explorer:
    """runs fn(path) once per feasible path (depth first, by re-execution from the start)"""

    def __init__(self, max_paths=20000):
        self.work = []
        self.max_paths = max_paths
        self.stats = {"paths": 0, "feas_checks": 0, "cut": 0}
        self.unsupported = []       # messages of paths that left the supported subset (the other paths are still explored)

    def push(self, prefix):
        self.work.append(prefix)

    def run(self, fn):
        self.work = [[]]
        paths = []
        while self.work:
            prefix = self.work.pop()
            reset_fresh()
            p = Path(prefix, self)
            try:
                fn(p)
            except PathEnd:
                self.stats["cut"] += 1
            except Unsupported as e:
                # this path cannot be decided; what the other paths refute is still refuted
                p.ghost["outcome"] = "unsupported"
                if str(e) not in self.unsupported:
                    self.unsupported.append(str(e))
                if len(self.unsupported) > 50:
                    raise
            paths.append(p)
            self.stats["paths"] += 1
            if self.stats["paths"] > self.max_paths:
                raise Unsupported("too many paths")
        return paths


def discharge(ob: Obligation, timeout_ms=TIMEOUT_OBL_MS, want_smt2=False):
    s = z3.Solver()
    s.set("timeout", timeout_ms)
    for t in ob.pc:
        s.add(t)
    s.add(z3.Not(ob.goal))
    if want_smt2:
        ob.smt2 = s.to_smt2()
    t0 = time.time()
    r = s.check()
    ob.secs = time.time() - t0
    ob.backend = "z3-" + z3.get_version_string()
    if r == z3.unsat:
        ob.status = "proved"
    elif r == z3.sat:
        ob.status = "refuted"
        ob.model = s.model()
    else:
        ob.status = "unknown"
        if ob.smt2 is None:
            ob.smt2 = s.to_smt2()
    return ob
