"""Assumed contracts of library functions (struct, math, time, hashlib, pycryptodome, asyncio, ...).

Each model is listed in the evidence as part of the trusted base; the thorough tier audits them
against the real libraries on boundary inputs (pyvc/audit.py).
"""
from __future__ import annotations

import ast

import z3

from . import builtins as B
from . import ops
from .loader import ClassInfo, builtin_class
from .values import (tid, ARR, FALSE, INT, MAXLEN, NONE, TRUE, W, HObj, Lit, Unsupported, V, VBool, VBytes, VFloat,
                     VInt, VNone, VRef, VStr, VTuple, VUnion, View, as_const, byte_val, concat, fresh, iadd,
                     isub, mkbool, mkint, _iv)


def used(I, name):
    I.path.assumption("library contract: " + name)


def ext_obj(I, tag, cls=None, **meta):
    meta["tag"] = tag
    return VRef(I.path.alloc(HObj("ext", cls, {}, meta=meta)))


# ---------------------------------------------------------------------------------------------
def call(I, fv, args, kw):
    name = fv.name
    fn = _LIB.get(name)
    if fn is None:
        for pre, h in _LIB_PREFIX.items():
            if name.startswith(pre):
                return h(I, fv, args, kw)
        raise Unsupported(f"no model for {name}")
    return fn(I, fv, args, kw)


def struct_pack(I, fv, args, kw):
    used(I, "struct.pack")
    fmt = args[0]
    if not (isinstance(fmt, VStr) and fmt.c is not None):
        raise Unsupported("struct.pack format")
    f = fmt.c
    vals = args[1:]
    if f == "<H":
        if len(vals) != 1:
            I.raise_py("struct.error", "pack expected 1 item")
        v = I.resolve(vals[0])
        if isinstance(v, VBool):
            v = ops._to_intlike(I, v)
        if not isinstance(v, VInt):
            I.raise_py("struct.error", "required argument is not an integer")
        if v.c is not None:
            if not 0 <= v.c <= 0xFFFF:
                I.raise_py("struct.error", "ushort format requires 0 <= number <= 65535")
        elif not (v.lo is not None and v.lo >= 0 and v.hi is not None and v.hi <= 0xFFFF):
            bad = z3.Or(ops.int_cmp("<", v, mkint(0)).term(), ops.int_cmp(">", v, mkint(0xFFFF)).term())
            if I.path.branch(bad, "struct.error"):
                I.raise_py("struct.error", "ushort format requires 0 <= number <= 65535")
        v2 = VInt(c=v.c, b=v.b, i=v.i, lo=0, hi=0xFFFF)
        return B.int_to_bytes(I, v2, 2, "little")
    if set(f) == {"B"}:
        if len(vals) != len(f):
            I.raise_py("struct.error", "pack expected items")
        out = []
        for x in vals:
            x = I.resolve(x)
            if isinstance(x, VFloat):
                I.raise_py("struct.error", "required argument is not an integer")
            from .interp import PyRaise
            try:
                out.append(I.to_byte(x))
            except PyRaise as e:
                I.raise_py("struct.error", "ubyte format requires 0 <= number <= 255")
        return VBytes([Lit(out)])
    return struct_pack_general(I, f, vals)


def struct_pack_general(I, f, vals):
    """struct.pack for standard-size formats made of s, x, B, H, I, Q (and b/h/i/q rejected), with < > ! = prefixes"""
    import re as _re
    order = "little"
    if f[:1] in "<>!=@":
        if f[0] in ">!":
            order = "big"
        if f[0] == "@":
            raise Unsupported("native struct alignment")
        f = f[1:]
    toks = _re.findall(r"(\d*)([sxBHIQ])", f)
    if "".join(a + b for a, b in toks) != f.replace(" ", ""):
        raise Unsupported(f"struct.pack format {f}")
    out = VBytes([])
    vals = list(vals)
    sizes = {"B": 1, "H": 2, "I": 4, "Q": 8}
    for cnt, code in toks:
        n = int(cnt) if cnt else 1
        if code == "x":
            out = concat(out, VBytes.lit(bytes(n)))
        elif code == "s":
            if not vals:
                I.raise_py("struct.error", "pack expected more items")
            v = I.resolve(vals.pop(0))
            if not isinstance(v, VBytes):
                I.raise_py("struct.error", "argument for 's' must be a bytes object")
            ln = v.length()
            # the value is truncated or zero padded to exactly n bytes
            if isinstance(ln, int):
                if ln >= n:
                    out = concat(out, I.slice_bytes(v.with_kind("bytes"), 0, n))
                else:
                    out = concat(concat(out, v.with_kind("bytes")), VBytes.lit(bytes(n - ln)))
            else:
                if I.path.branch(_iv(ln) >= n, "struct_s_len"):
                    out = concat(out, I.slice_bytes(v.with_kind("bytes"), 0, n))
                else:
                    out = concat(concat(out, v.with_kind("bytes")), VBytes([View(z3.K(B.INT, z3.BitVecVal(0, 8)), 0, z3.simplify(n - _iv(ln)))]))
        else:
            for _ in range(n):
                if not vals:
                    I.raise_py("struct.error", "pack expected more items")
                v = I.resolve(vals.pop(0))
                if isinstance(v, VBool):
                    v = ops._to_intlike(I, v)
                if not isinstance(v, VInt):
                    I.raise_py("struct.error", "required argument is not an integer")
                from .interp import PyRaise
                try:
                    out = concat(out, B.int_to_bytes(I, v, sizes[code], order))
                except PyRaise as e:
                    I.raise_py("struct.error", "argument out of range")
    if vals:
        I.raise_py("struct.error", "pack expected fewer items")
    return out


_STRUCT_SIZES = {"x": 1, "B": 1, "b": 1, "H": 2, "h": 2, "I": 4, "i": 4, "L": 4, "l": 4, "Q": 8, "q": 8, "s": 1, "?": 1}


def _struct_fields(fmt):
    """[(code, count)] and byte order of a standard-size struct format; None if outside the modelled subset"""
    if not fmt:
        return None, None
    if fmt[0] in "<>!":
        order = "little" if fmt[0] == "<" else "big"
        body = fmt[1:]
    elif all(ch.isdigit() or ch.isspace() or ch in "xBbs?" for ch in fmt.lstrip("@=")):
        order, body = "little", fmt.lstrip("@=")        # single-byte fields only: byte order and native alignment do not matter
    else:
        return None, None       # native sizes / alignment and '=' with multi-byte fields are not modelled
    out = []
    num = ""
    for ch in body:
        if ch.isdigit():
            num += ch
            continue
        if ch.isspace():
            continue
        if ch not in _STRUCT_SIZES:
            return None, None
        out.append((ch, int(num) if num else 1))
        num = ""
    if num:
        return None, None
    return out, order


def _struct_unpack(I, fmt, data, offset, exact):
    fields, order = _struct_fields(fmt.c if isinstance(fmt, VStr) else None)
    if fields is None:
        raise Unsupported(f"struct format {fmt!r}")
    data = I.resolve(data)
    if not isinstance(data, VBytes):
        I.raise_py("builtins.TypeError", "a bytes-like object is required")
    size = sum((cnt if code in ("s", "x") else cnt * _STRUCT_SIZES[code]) for code, cnt in fields)
    n = data.length()
    if not (isinstance(offset, VInt) and offset.c is not None and offset.c >= 0):
        raise Unsupported("struct.unpack_from with a symbolic or negative offset")
    off = offset.c
    bad = (_iv(n) != size) if exact else (_iv(n) - off < size)
    if isinstance(n, int):
        if (n != size) if exact else (n - off < size):
            I.raise_py("struct.error", "unpack requires a buffer of the right size")
    elif I.path.branch(bad, "struct.error"):
        I.raise_py("struct.error", "unpack requires a buffer of the right size")
    vals = []
    pos = off
    for code, cnt in fields:
        if code == "x":
            pos += cnt
            continue
        if code == "s":
            vals.append(VBytes(I.slice_bytes(data, pos, pos + cnt).segs, "bytes"))
            pos += cnt
            continue
        w = _STRUCT_SIZES[code]
        for _ in range(cnt):
            bs = [byte_val(data.at(pos + k)) for k in range(w)]
            if order == "big":
                bs.reverse()
            v = bs[0]
            for k in range(1, w):
                v = ops._bitop(I, "|", v, ops._shift(I, "<<", bs[k], mkint(8 * k)))
            if code == "?":
                v = ops.int_cmp("!=", v, mkint(0))
            elif code in "bhilq":
                # two's complement
                neg = ops.int_cmp(">=", v, mkint(1 << (8 * w - 1)))
                v = ops.union_of([(neg.term(), ops._arith(I, "-", v, mkint(1 << (8 * w)))), (z3.Not(neg.term()), v)]) if neg.c is None else \
                    (ops._arith(I, "-", v, mkint(1 << (8 * w))) if neg.c else v)
            vals.append(v)
            pos += w
    return VTuple(vals)


def struct_unpack(I, fv, args, kw):
    used(I, "struct.unpack")
    return _struct_unpack(I, args[0], args[1], mkint(0), True)


def struct_unpack_from(I, fv, args, kw):
    used(I, "struct.unpack")
    off = args[2] if len(args) > 2 else kw.get("offset", mkint(0))
    return _struct_unpack(I, args[0], args[1], I.resolve(off), False)


def struct_calcsize(I, fv, args, kw):
    fields, order = _struct_fields(args[0].c if isinstance(args[0], VStr) else None)
    if fields is None:
        raise Unsupported("struct.calcsize format")
    return mkint(sum((cnt if code in ("s", "x") else cnt * _STRUCT_SIZES[code]) for code, cnt in fields))


def math_modf(I, fv, args, kw):
    used(I, "math.modf (float treated as exact rational)")
    x = I.resolve(args[0])
    if isinstance(x, (VInt, VBool)):
        x = B.call_type(I, B.VType("float"), [x], {})
    if not isinstance(x, VFloat):
        I.raise_py("builtins.TypeError", "must be real number")
    if x.c is not None:
        import math
        f, i = math.modf(x.c)
        return VTuple([VFloat(c=f), VFloat(c=i)])
    ip = z3.ToReal(ops.trunc_real(x.t))
    return VTuple([VFloat(t=x.t - ip), VFloat(t=ip)])


def _as_real(I, v):
    v = I.resolve(v)
    if isinstance(v, (VInt, VBool)):
        v = B.call_type(I, B.VType("float"), [v], {})
    if not isinstance(v, VFloat):
        I.raise_py("builtins.TypeError", "must be real number")
    return v


def math_copysign(I, fv, args, kw):
    used(I, "math.copysign (float treated as exact rational: a zero second argument counts as positive, i.e. no negative zero)")
    x, y = _as_real(I, args[0]), _as_real(I, args[1])
    if x.c is not None and y.c is not None:
        import math
        return VFloat(c=math.copysign(x.c, y.c))
    xt, yt = x.term(), y.term()
    ax = z3.If(xt >= 0, xt, -xt)
    return VFloat(t=z3.If(yt >= 0, ax, -ax))


def math_floor_ceil(which):
    def f(I, fv, args, kw):
        used(I, f"math.{which} (float treated as exact rational)")
        x = I.resolve(args[0])
        if isinstance(x, (VInt, VBool)):
            return x
        x = _as_real(I, x)
        if x.c is not None:
            import math
            return mkint(getattr(math, which)(x.c))
        fl = z3.ToInt(x.term())
        return VInt(i=fl if which == "floor" else z3.If(z3.ToReal(fl) == x.term(), fl, fl + 1))
    return f


def time_time(I, fv, args, kw):
    used(I, "time.time")
    return VFloat(t=z3.Real(fresh("time")))


def logging_getLogger(I, fv, args, kw):
    from .interp import VBuiltin
    return VBuiltin("logger")


_LIB = {
    "struct.pack": struct_pack,
    "struct.unpack": struct_unpack,
    "struct.unpack_from": struct_unpack_from,
    "struct.calcsize": struct_calcsize,
    "math.modf": math_modf,
    "math.copysign": math_copysign,
    "math.floor": math_floor_ceil("floor"),
    "math.ceil": math_floor_ceil("ceil"),
    "time.time": time_time,
    "logging.getLogger": logging_getLogger,
}


# ---- hooks referenced from builtins.py ------------------------------------------------------------

def inst_ext_attr(I, ref, o, name):
    return None


def ext_attr_of(I, ref, o, name):
    tag = o.meta.get("tag")
    if tag == "namedtuple":
        if name in o.fields:
            return o.fields[name]
    h = _EXT_ATTR.get(tag)
    if h is not None:
        return h(I, ref, o, name)
    raise Unsupported(f"attribute {name} of ext object {tag}")


def call_ext_object(I, fv, o, args, kwargs):
    tag = o.meta.get("tag")
    if tag == "namedtuple_type":
        names = o.meta["fields"]
        vals = list(args)
        inst = HObj("ext", None, {}, meta={"tag": "namedtuple", "fields": names})
        for n, v in zip(names, vals):
            inst.fields[n] = v
        for k, v in kwargs.items():
            inst.fields[k] = v
        return VRef(I.path.alloc(inst))
    h = _EXT_CALL.get(tag)
    if h is not None:
        return h(I, fv, o, args, kwargs)
    raise Unsupported(f"call of ext object {tag}")


def ext_eq(I, a, oa, b, ob):
    return mkbool(a.ref == b.ref)


def order_ref(I, o, a, b):
    raise Unsupported("ordering of objects")


def ext_contains(I, ref, o, x):
    raise Unsupported(f"`in` on {o.kind}/{o.meta.get('tag')}")


def ext_getitem(I, base, o, idx):
    raise Unsupported(f"subscript of {o.kind}/{o.meta.get('tag')}")


def make_ext(I, cs, typ, name):
    h = _EXT_MAKE.get(typ.split(":")[0])
    if h is None:
        raise Unsupported(f"ext type {typ}")
    return h(I, cs, typ, name)


def async_generator(I, fv, args, kwargs):
    """use of an async generator by its contract: a list of yielded values, possibly ended by a declared exception"""
    cs = I.contracts
    c = cs.contracts.get(fv.qualname) if cs is not None else None
    if c is None or not c.yields:
        raise Unsupported(f"async generator {fv.qualname} needs a contract with `yields`")
    loc = I.bind_params(fv, args, kwargs)
    cs.used.add(c.target)
    sfr = cs.clause_frame(c, loc)
    for k, src in enumerate(c.requires):
        t = cs.eval_clause(I, c, src, sfr, assuming=False)
        I.path.oblige(f"{I.verifying}.call.{c.target.split('.', 1)[-1]}.pre.{k}", t.term(), {"clause": src, "callee": c.target})
        I.path.assume(t.term())
    from . import symlist
    items = symlist.make(I, cs, c.yields, "yielded_" + fv.qualname.split(".")[-1])
    env_step(I)
    cs.havoc_modifies(I, c, sfr, c.modifies)
    I.hobj(items).meta["raises_at_end"] = list(c.raises)
    for ev_name, src in c.emits.items():
        I.path.ghost.setdefault("events", {}).setdefault(ev_name, []).append(cs.snapshot(I, I.ev(c.expr(src), sfr), deep_inst=True))
    return items


def bytes_decode(I, vb, args, kw):
    raise Unsupported("bytes.decode")


def str_method(I, fv, args, kw):
    name = fv.name.split(".")[-1]
    s = fv.self_val
    if s.c is not None and all(isinstance(a, (VStr, VInt)) and a.c is not None for a in args):
        pa = [a.c for a in args]
        if name in ("startswith", "endswith"):
            return mkbool(getattr(s.c, name)(*pa))
        if name in ("upper", "lower", "capitalize", "strip"):
            return VStr(c=getattr(s.c, name)(*pa))
        if name == "encode":
            try:
                return VBytes.lit(s.c.encode(*pa))
            except UnicodeEncodeError:
                I.raise_py("builtins.UnicodeEncodeError", "encode")
        if name == "split":
            return I.new_list([VStr(c=x) for x in s.c.split(*pa)])
        if name == "join":
            pass
    if name == "startswith" and isinstance(args[0], VStr) and args[0].c is not None:
        return B.opaque_bool(I, "str_startswith", [s, args[0]])
    raise Unsupported(f"str method {name}")


def int_of_str(I, a, rest, kw):
    if a.c is not None and all(isinstance(x, VInt) and x.c is not None for x in rest):
        try:
            return mkint(int(a.c, *[x.c for x in rest]))
        except ValueError:
            I.raise_py("builtins.ValueError", "invalid literal for int()")
    raise Unsupported("int() of a symbolic string")


def str_of(I, a):
    return I.opaque_str("str", B.vkey(I, a))


_EXT_ATTR = {}
_EXT_CALL = {}
_EXT_MAKE = {}


# ===============================================================================================
# hashes, AES, padding, random, xor  (uninterpreted; algebraic laws by rewriting on provenance)
# ===============================================================================================

def _as_bytes(I, v):
    """bytes view of a value for the library models; state with an unknown history becomes arbitrary bytes"""
    v = I.resolve(v)
    from .values import VAny as _VAny
    if isinstance(v, _VAny):
        return B.make_bytes(I, [v], "bytes")
    return v


def _hash_digest(I, algo, n, data: VBytes):
    data = _as_bytes(I, data)
    if data.is_concrete():
        import hashlib
        return VBytes.lit(getattr(hashlib, algo)(data.concrete()).digest())
    used(I, f"{algo}: deterministic uninterpreted function with a {n}-byte digest")
    return B.opaque_bytes(I, algo, [data], n, origin=(algo,))


def hashlib_new(algo, n):
    def f(I, fv, args, kw):
        data = I.resolve(args[0]) if args else VBytes([])
        from .values import VAny as _VAny
        if isinstance(data, _VAny):
            data = B.make_bytes(I, [data], "bytes")
        if not isinstance(data, VBytes):
            I.raise_py("builtins.TypeError", "object supporting the buffer API required")
        return ext_obj(I, "hash", algo=algo, n=n, data=data)
    return f


def hash_attr(I, ref, o, name):
    from .interp import VBuiltin
    return VBuiltin("hash." + name, ref)


def hash_call(I, fv, args, kw):
    o = I.hobj(fv.self_val)
    name = fv.name.split(".")[-1]
    if name == "digest":
        return _hash_digest(I, o.meta["algo"], o.meta["n"], o.meta["data"])
    if name == "hexdigest":
        d = _hash_digest(I, o.meta["algo"], o.meta["n"], o.meta["data"])
        if d.is_concrete():
            return VStr(c=d.concrete().hex())
        return I.opaque_str("hex", d.key())
    if name == "update":
        o.meta["data"] = concat(_as_bytes(I, o.meta["data"]), _as_bytes(I, args[0]))
        return NONE
    raise Unsupported(f"hash method {name}")


AES_MODE_ECB, AES_MODE_CBC = 1, 2


def aes_new(I, fv, args, kw):
    used(I, "AES.new/encrypt/decrypt: ValueError iff key length not in {16,24,32} or data length not a multiple of 16; "
            "length preserving; decrypt(encrypt(x)) = x and encrypt(decrypt(x)) = x under the same key/mode/iv")
    key = I.resolve(args[0])
    mode = I.resolve(args[1])
    if not isinstance(key, VBytes):
        I.raise_py("builtins.TypeError", "key must be bytes")
    n = key.length()
    bad = z3.Not(z3.Or(_iv(n) == 16, _iv(n) == 24, _iv(n) == 32)) if not isinstance(n, int) else (n not in (16, 24, 32))
    if I.path.branch(bad, "aes_keylen") if not isinstance(bad, bool) else bad:
        I.raise_py("builtins.ValueError", "Incorrect AES key length")
    iv = kw.get("iv", kw.get("IV"))
    if mode.c == AES_MODE_CBC:
        if iv is None:
            raise Unsupported("AES CBC without explicit iv")
        iv = I.resolve(iv)
        ivn = iv.length()
        if isinstance(ivn, int) and ivn != 16:
            I.raise_py("builtins.ValueError", "Incorrect IV length")
    return ext_obj(I, "aes", key=key, mode=mode.c, iv=iv)


def aes_attr(I, ref, o, name):
    from .interp import VBuiltin
    return VBuiltin("aes." + name, ref)


def aes_call(I, fv, args, kw, total=False):
    o = I.hobj(fv.self_val)
    name = fv.name.split(".")[-1]
    data = I.resolve(args[0])
    if not isinstance(data, VBytes):
        I.raise_py("builtins.TypeError", "data must be bytes")
    n = data.length()
    if total:
        pass        # specification-level use: a total uninterpreted function (unspecified on unaligned data)
    elif isinstance(n, int):
        if n % 16:
            I.raise_py("builtins.ValueError", "Data must be aligned to block boundary")
    elif I.path.branch(_iv(n) % 16 != 0, "aes_block"):
        I.raise_py("builtins.ValueError", "Data must be aligned to block boundary")
    mode = "ecb" if o.meta["mode"] == AES_MODE_ECB else "cbc"
    keyk = o.meta["key"].key()
    ivk = o.meta["iv"].key() if o.meta.get("iv") is not None else None
    tag_e, tag_d = f"aes_{mode}_enc", f"aes_{mode}_dec"
    this, inv = (tag_e, tag_d) if name == "encrypt" else (tag_d, tag_e)
    if name not in ("encrypt", "decrypt"):
        raise Unsupported(f"AES method {name}")
    org = B.whole_origin(data, inv)
    if org is not None and org[1] == keyk and org[2] == ivk and I.path.known(_iv(data.segs[0].n) == _iv(org[3].length())):
        return org[3].with_kind("bytes")          # inverse law
    return B.opaque_bytes(I, this, [o.meta["key"], data] + ([o.meta["iv"]] if ivk is not None else []), n,
                          origin=(this, keyk, ivk, data))


PADTAG = "pkcs7pad"


def padding_pad(I, fv, args, kw):
    used(I, "Padding.pad(x,16) = x ++ p*[p] with p = 16 - len(x) % 16 (PKCS#7)")
    data = I.resolve(args[0])
    bs = I.resolve(args[1])
    if bs.c != 16:
        raise Unsupported("pad block size")
    n = data.length()
    if isinstance(n, int):
        p = 16 - n % 16
        return concat(data.with_kind("bytes"), VBytes([View(z3.K(B.INT, z3.BitVecVal(p, 8)), 0, p, origin=(PADTAG,))]))
    p = z3.simplify(16 - _iv(n) % 16)
    return concat(data.with_kind("bytes"), VBytes([View(z3.K(B.INT, z3.Int2BV(p, 8)), 0, p, origin=(PADTAG,))]))


def padding_unpad(I, fv, args, kw):
    used(I, "Padding.unpad(y,16): ValueError unless len(y) is a positive multiple of 16 and y ends in p copies of p, 1 <= p <= 16; then y[:-p]")
    y = I.resolve(args[0])
    if I.resolve(args[1]).c != 16:
        raise Unsupported("unpad block size")
    n = y.length()
    if y.segs and isinstance(y.segs[-1], View) and y.segs[-1].origin == (PADTAG,):
        # unpad(pad(x)) = x  -- the view was built by padding_pad (length and contents are PKCS#7 by construction)
        return VBytes(y.segs[:-1], "bytes")
    nn = _iv(n)
    empty_or_unaligned = z3.Or(nn <= 0, nn % 16 != 0)
    if I.path.branch(empty_or_unaligned, "unpad_len"):
        I.raise_py("builtins.ValueError", "Input data is not padded")
    last = y.at(isub(n, 1))
    lastv = byte_val(last)
    p = lastv.as_int()
    conds = [p >= 1, p <= 16]
    for k in range(1, 16):
        conds.append(z3.Implies(p > k, y.at(z3.simplify(nn - 1 - k)) == last))
    ok = z3.And(conds)
    if not I.path.branch(ok, "unpad_ok"):
        I.raise_py("builtins.ValueError", "Padding is incorrect.")
    return I.slice_bytes(y.with_kind("bytes"), 0, z3.simplify(nn - p))


def get_random_bytes(I, fv, args, kw):
    used(I, "get_random_bytes(n): n arbitrary bytes")
    n = B.want_int(I, args[0])
    if n.c is not None:
        return VBytes([View(z3.Const(fresh("rnd"), B.ARR), 0, n.c)]) if n.c > 0 else VBytes([])
    return VBytes([View(z3.Const(fresh("rnd"), B.ARR), 0, n.as_int())])


def strxor(I, fv, args, kw):
    used(I, "strxor(a,b): ValueError iff lengths differ, else byte-wise xor")
    a, b = I.resolve(args[0]), I.resolve(args[1])
    la, lb = a.length(), b.length()
    if isinstance(la, int) and isinstance(lb, int):
        if la != lb:
            I.raise_py("builtins.ValueError", "Only byte strings of equal length can be xored")
    elif I.path.branch(_iv(la) != _iv(lb), "strxor_len"):
        I.raise_py("builtins.ValueError", "Only byte strings of equal length can be xored")
    n = a.conc_len() if a.conc_len() is not None else b.conc_len()
    if n is None or n > 256:
        raise Unsupported("strxor of symbolic length")
    return VBytes([Lit([z3.simplify(a.at(k) ^ b.at(k)) for k in range(n)])])


def bytes_fromhex(I, fv, args, kw):
    used(I, "bytes.fromhex: opaque deterministic function of the string (ValueError for non-hex strings)")
    s = I.resolve(args[0])
    if s.c is not None:
        try:
            return VBytes.lit(bytes.fromhex(s.c))
        except ValueError:
            I.raise_py("builtins.ValueError", "non-hexadecimal number found in fromhex()")
    if I.path.branch(B.opaque_bool(I, "is_hex", [s]).term(), "fromhex"):
        n = B.opaque_int(I, "hexlen", [s], 0, MAXLEN)
        return B.opaque_bytes(I, "fromhex", [s], n.as_int())
    I.raise_py("builtins.ValueError", "non-hexadecimal number found in fromhex()")


_LIB.update({
    "hashlib.md5": hashlib_new("md5", 16), "hashlib.sha256": hashlib_new("sha256", 32),
    "Crypto.Cipher.AES.new": aes_new, "Crypto.Util.Padding.pad": padding_pad, "Crypto.Util.Padding.unpad": padding_unpad,
    "Crypto.Random.get_random_bytes": get_random_bytes, "Crypto.Util.strxor.strxor": strxor,
    "bytes.fromhex": bytes_fromhex,
})
_EXT_ATTR.update({"hash": hash_attr, "aes": aes_attr})
_LIB_PREFIX = {"hash.": hash_call, "aes.": aes_call}
_CONSTS = {"Crypto.Cipher.AES.MODE_ECB": AES_MODE_ECB, "Crypto.Cipher.AES.MODE_CBC": AES_MODE_CBC, "Crypto.Cipher.AES.block_size": 16}


# ===============================================================================================
# spec-level names of the same primitives (used by the sidecar spec functions; natively pyvc/dsl.py)
# ===============================================================================================

def _spec_hash(algo, n):
    def f(I, args, kw):
        return _hash_digest(I, algo, n, I.resolve(args[0]))
    return f


def _spec_aes(mode, op):
    def f(I, args, kw):
        from .interp import VBuiltin
        key, data = args
        kwargs = {"iv": VBytes.lit(bytes(16))} if mode == AES_MODE_CBC else {}
        c = aes_new(I, None, [key, mkint(mode)], kwargs)
        return aes_call(I, VBuiltin("aes." + op, c), [data], {}, total=True)
    return f


def _spec_pkcs7(I, args, kw):
    return padding_pad(I, None, [args[0], mkint(16)], {})


def _spec_xor(I, args, kw):
    return strxor(I, None, args, kw)


def _spec_is_xml(I, args, kw):
    return B.opaque_bool(I, "is_xml", [I.resolve(args[0])])


SPEC_LIB = {
    "is_xml": _spec_is_xml,
    "md5": _spec_hash("md5", 16), "sha256": _spec_hash("sha256", 32),
    "aes_ecb_enc": _spec_aes(AES_MODE_ECB, "encrypt"), "aes_ecb_dec": _spec_aes(AES_MODE_ECB, "decrypt"),
    "aes_cbc_enc": _spec_aes(AES_MODE_CBC, "encrypt"), "aes_cbc_dec": _spec_aes(AES_MODE_CBC, "decrypt"),
    "pkcs7": _spec_pkcs7, "xor_bytes": _spec_xor,
}


# ===============================================================================================
# datetime / timedelta (ghost clock)
# ===============================================================================================

def clock_now(I):
    t = I.path.ghost.get("clock")
    if t is None:
        t = z3.Int(fresh("clock"))
        I.path.ghost["clock"] = t
    return t


def dt_now(I, fv, args, kw):
    used(I, "datetime.now: ghost clock; it advances (by any amount, never backwards) only while the coroutine is suspended at an await; "
            "calendar fields within their documented ranges")
    return make_datetime(I, clock_now(I))


def make_datetime(I, t):
    o = ext_obj(I, "datetime", ts=t)
    f = I.hobj(o).fields
    for name, lo, hi in (("year", 1, 9999), ("month", 1, 12), ("day", 1, 31), ("hour", 0, 23), ("minute", 0, 59),
                         ("second", 0, 59), ("microsecond", 0, 999999)):
        v = B.opaque_int(I, "dt_" + name, [VInt(i=t)], lo, hi)
        f[name] = v
    return o


def dt_attr(I, ref, o, name):
    from .interp import VBuiltin
    if name in o.fields:
        return o.fields[name]
    return VBuiltin("dt." + name, ref)


def dt_call(I, fv, args, kw):
    name = fv.name.split(".")[-1]
    if name in ("isoformat", "strftime"):
        return I.opaque_str(name, id(fv.self_val))
    raise Unsupported(f"datetime method {name}")


def timedelta_new(I, fv, args, kw):
    used(I, "timedelta: exact number of seconds")
    secs = mkint(0)
    for k, mult in (("days", 86400), ("hours", 3600), ("minutes", 60), ("seconds", 1)):
        if k in kw:
            v = B.want_int(I, kw[k])
            secs = ops._arith(I, "+", secs, ops._arith(I, "*", v, mkint(mult)))
    if args:
        raise Unsupported("timedelta positional arguments")
    return ext_obj(I, "timedelta", secs=secs, truth=ops.truth(I, secs))


def td_attr(I, ref, o, name):
    from .interp import VBuiltin
    return VBuiltin("td." + name, ref)


def td_call(I, fv, args, kw):
    name = fv.name.split(".")[-1]
    o = I.hobj(fv.self_val)
    if name == "total_seconds":
        s = o.meta["secs"]
        return VFloat(c=float(s.c)) if s.c is not None else VFloat(t=z3.ToReal(s.as_int()))
    raise Unsupported(f"timedelta method {name}")


def ext_binop(I, o, a, b):
    oa = I.hobj(a) if isinstance(a, VRef) else None
    ob = I.hobj(b) if isinstance(b, VRef) else None
    if oa is not None and ob is not None and oa.kind == "ext" and ob.kind == "ext":
        if oa.meta.get("tag") == "datetime" and ob.meta.get("tag") == "timedelta" and o == "+":
            return make_datetime(I, z3.simplify(oa.meta["ts"] + ob.meta["secs"].as_int()))
    # a JSON value in a string concatenation: TypeError unless it is a JSON string (uninterpreted predicate), whose text is
    # an uninterpreted function of the value
    for x, ox, y, left in ((a, oa, b, True), (b, ob, a, False)):
        if ox is not None and ox.kind == "ext" and ox.meta.get("tag") == "json" and isinstance(y, VStr) and o == "+":
            used(I, "JSON value + str: TypeError unless the value is a JSON string (uninterpreted predicate); its text is an uninterpreted function of the value")
            ok = B.opaque_bool(I, "json_is_str", [x])
            if not I.path.branch(ok.term(), "json_str"):
                I.raise_py("builtins.TypeError", "can only concatenate str")
            sx = I.opaque_str("json_str", x.ref)
            return I.str_concat(sx, y) if left else I.str_concat(y, sx)
    raise Unsupported(f"binop {o} on objects")


def order_ref(I, o, a, b):          # noqa: F811
    oa = I.hobj(a) if isinstance(a, VRef) else None
    ob = I.hobj(b) if isinstance(b, VRef) else None
    if oa is not None and ob is not None and oa.meta.get("tag") == "datetime" and ob.meta.get("tag") == "datetime":
        x, y = oa.meta["ts"], ob.meta["ts"]
        return VBool(t={"<": x < y, "<=": x <= y, ">": x > y, ">=": x >= y}[o])
    raise Unsupported("ordering of objects")


def make_ext_datetime(I, cs, typ, name):
    t = z3.Int(fresh(name + "_ts"))
    return make_datetime(I, t)


def make_ext_timedelta(I, cs, typ, name):
    s = z3.Int(fresh(name + "_secs"))
    v = VInt(i=s)
    return ext_obj(I, "timedelta", secs=v, truth=ops.truth(I, v))


_LIB.update({"datetime.datetime.now": dt_now, "datetime.timedelta": timedelta_new})
_EXT_ATTR.update({"datetime": dt_attr, "timedelta": td_attr})
_LIB_PREFIX.update({"dt.": dt_call, "td.": td_call})
_EXT_MAKE.update({"datetime": make_ext_datetime, "timedelta": make_ext_timedelta})


# ===============================================================================================
# asyncio: queue, transport, wait_for, sleep, create_connection (environment contracts, DESIGN 3.4)
# ===============================================================================================

def make_queue(I, cs, typ, name):
    """ext:queue[:<spec predicate assumed for every queued element>]"""
    from . import symlist
    parts = typ.split(":")
    items = symlist.make(I, cs, "bytes", name + "_items")
    q = ext_obj(I, "queue", items=items, head=mkint(0), pred=parts[1] if len(parts) > 1 else None, cs=cs, name=name)
    return q


def new_queue(I, fv, args, kw):
    from . import symlist
    items = symlist.make(I, I.contracts, "bytes", "queue_items", length=mkint(0))
    ms = args[0] if args else kw.get("maxsize")
    ms = I.resolve(ms) if ms is not None else None
    bounded = ms is not None and not (isinstance(ms, VInt) and ms.c is not None and ms.c <= 0)
    used(I, "asyncio.Queue: FIFO; get_nowait raises QueueEmpty iff empty; get() returns the oldest item or, when empty, waits for the next item the protocol queues")
    return ext_obj(I, "queue", items=items, head=mkint(0), pred=None, cs=I.contracts, name="queue", bounded=bounded)


def queue_attr(I, ref, o, name):
    from .interp import VBuiltin
    return VBuiltin("queue." + name, ref)


def _queue_elem(I, o, idx):
    from . import symlist
    items = o.meta["items"]
    e = symlist.elem(I, items, I.hobj(items), idx)
    pred = o.meta.get("pred")
    key = ("qpred", items.ref, B.vkey(I, idx))
    if pred and key not in I.path.facts_done:
        I.path.facts_done.add(key)
        cs = o.meta["cs"]
        m = cs.module_defining(pred)
        from .interp import Frame
        t = ops.truth(I, I.call(I.module_get(m, pred), [e], {}))
        I.path.assume(t.term())
    return e


def _queue_size(I, o):
    n = I.hobj(o.meta["items"]).meta["len"]
    return ops._arith(I, "-", n, o.meta["head"])


def queue_call(I, fv, args, kw):
    used(I, "asyncio.Queue: FIFO; get_nowait raises QueueEmpty iff empty; get() returns the oldest item or, when empty, waits for the next item the protocol queues")
    o = I.hobj(fv.self_val)
    name = fv.name.split(".")[-1]
    from . import symlist
    if name in ("put_nowait", "get_nowait", "get"):
        I.log_write(("cont", fv.self_val.ref))
    if name == "put_nowait":
        if o.meta.get("bounded") and I.path.choose(2, "queue_full") == 1:
            I.raise_py("asyncio.QueueFull", "full")     # a bounded queue may be full (its fill level depends on the consumer)
        symlist.method(I, o.meta["items"], I.hobj(o.meta["items"]), "append", [args[0]], {})
        I.path.ghost.setdefault("events", {}).setdefault("queued", []).append(args[0])
        return NONE
    if name == "get_nowait":
        size = _queue_size(I, o)
        empty = ops.int_cmp("<=", size, mkint(0))
        if empty.c is True or (empty.c is None and I.path.branch(empty.t, "queue_empty")):
            I.raise_py("asyncio.QueueEmpty", "empty")
        e = _queue_elem(I, o, o.meta["head"])
        o.meta["head"] = ops._arith(I, "+", o.meta["head"], mkint(1))
        return e
    if name == "get":
        from .interp import VCoro

        def thunk():
            size = _queue_size(I, o)
            empty = ops.int_cmp("<=", size, mkint(0))
            if empty.c is True or (empty.c is None and I.path.branch(empty.t, "queue_empty")):
                # blocks until data_received queues the next item: an arbitrary new element
                items = I.hobj(o.meta["items"])
                items.meta["len"] = ops._arith(I, "+", items.meta["len"], mkint(1))
            e = _queue_elem(I, o, o.meta["head"])
            o.meta["head"] = ops._arith(I, "+", o.meta["head"], mkint(1))
            return e
        co = VCoro(thunk)
        co.queue = o
        return co
    if name == "empty":
        return ops.int_cmp("<=", _queue_size(I, o), mkint(0))
    if name == "qsize":
        return _queue_size(I, o)
    raise Unsupported(f"queue method {name}")


def make_transport(I, cs=None, typ=None, name="transport"):
    c0 = VBool(t=z3.Bool(fresh(name + "_closing")))
    return ext_obj(I, "transport", closing=c0, init_closing=c0, name=name)


def transport_attr(I, ref, o, name):
    from .interp import VBuiltin
    return VBuiltin("transport." + name, ref)


def transport_call(I, fv, args, kw):
    o = I.hobj(fv.self_val)
    name = fv.name.split(".")[-1]
    ev = I.path.ghost.setdefault("events", {})
    if name == "is_closing":
        used(I, "transport.is_closing(): current value of the transport's closing flag (set by close(); the peer may set it at any await)")
        return o.meta["closing"]
    if name == "write":
        used(I, "transport.write(b): hands b to the peer's byte stream in call order, raises nothing")
        ev.setdefault("tx", []).append(args[0])
        ev.setdefault("tx_on", []).append(fv.self_val)
        return NONE
    if name == "close":
        o.meta["closing"] = B.TRUE
        ev.setdefault("closed", []).append(fv.self_val)
        return NONE
    if name == "get_extra_info":
        return VTuple([I.opaque_str("peerhost", fv.self_val.ref), B.opaque_int(I, "peerport", [fv.self_val], 0, 65535)])
    if name == "sendto":
        ev.setdefault("sendto", []).append(VTuple(list(args)))
        return NONE
    raise Unsupported(f"transport method {name}")


def env_step(I):
    """something may have happened while the coroutine was suspended: time passed, transports may have started closing"""
    t0 = clock_now(I)
    t1 = z3.Int(fresh("clock"))
    I.path.assume(t1 >= t0)
    I.path.ghost["clock"] = t1
    for proto in list(I.path.ghost.get("events", {}).get("connected", [])):
        po = I.hobj(proto)
        if po.kind == "inst" and po.cls.name == "_V1DeviceInfoProtocol" and not po.meta.get("fed"):
            po.meta["fed"] = True
            if I.path.choose(2, "peer_data") == 1:
                n = z3.Int(fresh("rx_len"))
                I.path.assume(z3.And(n >= 0, n <= MAXLEN))
                from .interp import PyRaise
                try:
                    I.call(I.getattr_(proto, "data_received"), [VBytes([View(z3.Const(fresh("rx"), B.ARR), 0, n)])], {})
                except PyRaise:
                    # asyncio: an exception raised by a protocol callback goes to the loop's exception handler and the transport is
                    # closed; it does not reach the coroutine that is waiting (effects of the callback up to the raise stay)
                    used(I, "asyncio: an exception raised inside a protocol callback is reported to the event loop's exception handler "
                            "(transport closed), not to the coroutine waiting on the connection")
    for ref, o in list(I.path.heap.items()):
        if o.kind == "ext" and o.meta.get("tag") == "transport":
            c = o.meta["closing"]
            if c.c is True:
                continue
            o.meta["closing"] = VBool(t=z3.Or(c.term(), z3.Bool(fresh("peer_closed"))))


def _cancellable(I):
    c = I.contracts.contracts.get(I.verifying) if I.contracts and I.verifying else None
    return c is not None and getattr(c, "cancellation", False)


def asyncio_wait_for(I, fv, args, kw):
    used(I, "asyncio.wait_for(aw, t): the awaitable's result/exception, or asyncio.TimeoutError (or CancelledError when the contract models cancellation)")
    from .interp import VCoro
    aw = args[0]

    def thunk():
        outcomes = ["result", "timeout"] + (["cancel"] if _cancellable(I) else [])
        k = I.path.choose(len(outcomes), "wait_for")
        env_step(I)
        if outcomes[k] == "result":
            return I.await_(aw)
        if outcomes[k] == "timeout":
            I.raise_py("builtins.TimeoutError", "timeout")
        I.raise_py("asyncio.CancelledError", "cancelled")
    return VCoro(thunk)


def asyncio_sleep(I, fv, args, kw):
    from .interp import VCoro

    def thunk():
        env_step(I)
        if _cancellable(I) and I.path.choose(2, "sleep_cancel") == 1:
            I.raise_py("asyncio.CancelledError", "cancelled")
        return NONE
    return VCoro(thunk)


def asyncio_get_event_loop(I, fv, args, kw):
    return ext_obj(I, "loop")


def loop_attr(I, ref, o, name):
    from .interp import VBuiltin
    return VBuiltin("loop." + name, ref)


def loop_call(I, fv, args, kw):
    name = fv.name.split(".")[-1]
    from .interp import VCoro
    if name == "create_connection":
        used(I, "loop.create_connection(factory, host, port): OverflowError iff port is not in 0..65535, OSError, or (transport, factory()) after protocol.connection_made(transport)")
        factory = args[0]
        port = I.resolve(args[2]) if len(args) > 2 else None

        def thunk():
            if isinstance(port, VInt) and not isinstance(port, VBool):
                okp = z3.And(port.as_int() >= 0, port.as_int() <= 65535) if port.c is None else (0 <= port.c <= 65535)
                if not (okp if isinstance(okp, bool) else I.path.branch(okp, "port_range")):
                    I.raise_py("builtins.OverflowError", "port must be 0-65535")
            if I.path.choose(2, "connect") == 1:
                I.raise_py("builtins.ConnectionRefusedError", "connect failed")
            proto = I.call(factory, [], {})
            tr = make_transport(I)
            I.hobj(tr).meta["closing"] = B.FALSE
            I.call(I.getattr_(proto, "connection_made"), [tr], {})
            I.path.ghost.setdefault("events", {}).setdefault("connected", []).append(proto)
            return VTuple([tr, proto])
        return VCoro(thunk)
    raise Unsupported(f"loop method {name}")


_LIB.update({"asyncio.Queue": new_queue, "asyncio.wait_for": asyncio_wait_for, "asyncio.sleep": asyncio_sleep,
             "asyncio.get_event_loop": asyncio_get_event_loop})
_EXT_ATTR.update({"queue": queue_attr, "transport": transport_attr, "loop": loop_attr})
_LIB_PREFIX.update({"queue.": queue_call, "transport.": transport_call, "loop.": loop_call})
_EXT_MAKE.update({"queue": make_queue, "transport": make_transport})


# ===============================================================================================
# strings, XML, ipaddress (opaque deterministic functions with assumed raise conditions)
# ===============================================================================================

def bytes_decode(I, vb, args, kw):          # noqa: F811
    used(I, "bytes.decode(): UnicodeDecodeError iff the bytes are not valid UTF-8 (uninterpreted predicate); otherwise a deterministic string")
    vb = I.resolve(vb)
    if vb.is_concrete():
        try:
            return VStr(c=vb.concrete().decode())
        except UnicodeDecodeError:
            I.raise_py("builtins.UnicodeDecodeError", "invalid utf-8")
    ok = B.opaque_bool(I, "utf8_ok", [vb])
    if not I.path.branch(ok.term(), "utf8"):
        I.raise_py("builtins.UnicodeDecodeError", "invalid utf-8")
    return I.opaque_str("decode", vb.key())


def str_method(I, fv, args, kw):            # noqa: F811
    name = fv.name.split(".")[-1]
    s = fv.self_val
    if s.c is not None and all(isinstance(a, (VStr, VInt)) and a.c is not None for a in args):
        pa = [a.c for a in args]
        if name in ("startswith", "endswith"):
            return mkbool(getattr(s.c, name)(*pa))
        if name in ("upper", "lower", "capitalize", "strip"):
            return VStr(c=getattr(s.c, name)(*pa))
        if name == "encode":
            try:
                return VBytes.lit(s.c.encode(*pa))
            except UnicodeEncodeError:
                I.raise_py("builtins.UnicodeEncodeError", "encode")
        if name == "split":
            return I.new_list([VStr(c=x) for x in s.c.split(*pa)])
    if name == "split" and len(args) == 1 and isinstance(args[0], VStr) and args[0].c is not None:
        used(I, "str.split(sep): deterministic list of at least one field (uninterpreted)")
        from . import symlist
        n = B.opaque_int(I, "split_len", [s, args[0]], 1, MAXLEN)
        lst = symlist.make(I, I.contracts, "str", "split", length=n)
        o = I.hobj(lst)
        o.meta["elem_factory"] = lambda idx: I.opaque_str("split_elem", tid(I.str_term(s)), args[0].c, B.vkey(I, idx))
        return lst
    if name == "encode":
        used(I, "str.encode(): UnicodeEncodeError iff not encodable (uninterpreted predicate); otherwise deterministic bytes")
        enc = args[0].c if args else "utf-8"
        ok = B.opaque_bool(I, "encodable_" + enc, [s])
        if not I.path.branch(ok.term(), "encodable"):
            I.raise_py("builtins.UnicodeEncodeError", "encode")
        n = B.opaque_int(I, "enc_len", [s], 0, MAXLEN)
        return B.opaque_bytes(I, "encode_" + enc, [s], n.as_int())
    if name == "startswith" and isinstance(args[0], VStr) and args[0].c is not None:
        return B.opaque_bool(I, "str_startswith", [s, args[0]])
    if name in ("upper", "lower", "capitalize", "strip", "format"):
        return I.opaque_str(name, tid(I.str_term(s)))
    if name in ("lstrip", "rstrip", "removeprefix", "removesuffix", "replace", "title", "casefold", "swapcase", "zfill", "ljust", "rjust", "center") \
            and all(isinstance(a, (VStr, VInt)) for a in args):
        used(I, f"str.{name}: deterministic string valued function of its operands (uninterpreted), raises nothing")
        return I.opaque_str(name, tid(I.str_term(s)), *[(a.c if a.c is not None else tid(I.str_term(a) if isinstance(a, VStr) else a.as_int())) for a in args])
    raise Unsupported(f"str method {name}")


def int_of_str(I, a, rest, kw):             # noqa: F811
    if a.c is not None and all(isinstance(x, VInt) and x.c is not None for x in rest):
        try:
            return mkint(int(a.c, *[x.c for x in rest]))
        except ValueError:
            I.raise_py("builtins.ValueError", "invalid literal for int()")
    used(I, "int(s[, base]): ValueError iff s is not a number in that base (uninterpreted predicate); otherwise a deterministic integer")
    base = rest[0].c if rest else 10
    ok = B.opaque_bool(I, f"int_ok_{base}", [a])
    if not I.path.branch(ok.term(), "int_of_str"):
        I.raise_py("builtins.ValueError", "invalid literal for int()")
    return B.opaque_int(I, f"int_of_str_{base}", [a])


def et_fromstring(I, fv, args, kw):
    used(I, "ET.fromstring(b): ParseError unless b is XML (uninterpreted predicate); never XML when b starts with 5a5a or 8370")
    x = I.resolve(args[0])
    if isinstance(x, VStr):
        ok = B.opaque_bool(I, "is_xml_s", [x])
    else:
        ok = B.opaque_bool(I, "is_xml", [x])
        n = x.length()
        if isinstance(n, int) and n < 2:
            pass
        else:
            two = z3.And(_iv(n) >= 2, z3.Or(z3.And(x.at(0) == 0x5a, x.at(1) == 0x5a), z3.And(x.at(0) == 0x83, x.at(1) == 0x70)))
            I.path.assume(z3.Implies(two, z3.Not(ok.term())))
    if not I.path.branch(ok.term(), "xml"):
        I.raise_py("xml.etree.ElementTree.ParseError", "not xml")
    return ext_obj(I, "xml_element", src=x)


def xml_attr(I, ref, o, name):
    from .interp import VBuiltin
    if name == "attrib":
        return ext_obj(I, "xml_attrib", el=ref)
    return VBuiltin("xml." + name, ref)


def xml_call(I, fv, args, kw):
    name = fv.name.split(".")[-1]
    if name == "find":
        found = B.opaque_bool(I, "xml_find", [fv.self_val, args[0]])
        if I.path.branch(found.term(), "xml_find"):
            return ext_obj(I, "xml_element", src=None)
        return NONE
    if name == "get":
        used(I, "Element.get(k[, d]): the attribute's string, or the default (None) when it is missing (uninterpreted predicate)")
        has = B.opaque_bool(I, "xml_has_attr", [fv.self_val, args[0]])
        if I.path.branch(has.term(), "xml_attr"):
            return I.opaque_str("xml_attr", fv.self_val.ref, B.vkey(I, args[0]))
        return args[1] if len(args) > 1 else kw.get("default", NONE)
    raise Unsupported(f"xml method {name}")


def ipv4address(I, fv, args, kw):
    used(I, "ipaddress.IPv4Address(b): AddressValueError iff len(b) != 4")
    b = I.resolve(args[0])
    if isinstance(b, (VInt, VBool)) and not isinstance(b, VBool):
        # an integer address: the same address as its 4 bytes in network order; out of range -> AddressValueError
        from .interp import PyRaise
        try:
            b = B.int_to_bytes(I, b, 4, "big")
        except PyRaise:
            I.raise_py("ipaddress.AddressValueError", "Address out of range")
    if not isinstance(b, VBytes):
        raise Unsupported("IPv4Address of a non-bytes value")
    n = b.length()
    if (isinstance(n, int) and n != 4) or (not isinstance(n, int) and I.path.branch(_iv(n) != 4, "ipv4len")):
        I.raise_py("ipaddress.AddressValueError", "Address must be 4 bytes")
    return ext_obj(I, "ipv4", b=b)


def str_of(I, a):                           # noqa: F811
    if isinstance(a, VRef) and I.hobj(a).kind == "ext" and I.hobj(a).meta.get("tag") == "ipv4":
        return I.opaque_str("ipv4str", I.hobj(a).meta["b"].key())
    return I.opaque_str("str", B.vkey(I, a))


def ext_getitem(I, base, o, idx):           # noqa: F811
    if o.meta.get("tag") == "json":
        return json_getitem(I, base, o, idx)
    if o.meta.get("tag") == "xml_attrib":
        used(I, "Element.attrib[k]: KeyError iff the attribute is missing (uninterpreted predicate)")
        has = B.opaque_bool(I, "xml_has_attr", [base, idx])
        if not I.path.branch(has.term(), "xml_attr"):
            I.raise_py("builtins.KeyError", "attribute")
        return I.opaque_str("xml_attr", base.ref, B.vkey(I, idx))
    raise Unsupported(f"subscript of {o.kind}/{o.meta.get('tag')}")


_LIB.update({"xml.etree.ElementTree.fromstring": et_fromstring, "xml.etree.ElementTree.tostring": lambda I, fv, a, k: I.opaque_str("xmlstr", id(a[0])),
             "ipaddress.IPv4Address": ipv4address})
_EXT_ATTR.update({"xml_element": xml_attr})
_LIB_PREFIX.update({"xml.": xml_call})


# ===============================================================================================
# predicate sets (unbounded universe), tasks, datagram endpoints
# ===============================================================================================

def make_pset(I, cs, typ, name):
    """ext:pset - a set over an unbounded universe: membership of its initial content is an uninterpreted predicate"""
    return VRef(I.path.alloc(HObj("ext", None, {}, meta={"tag": "pset", "name": fresh(name), "added": []})))


def pset_contains(I, ref, o, x):
    base = B.opaque_bool(I, "member_" + o.meta["name"], [x]).term()
    terms = [base] + [ops.eq_values(I, a, x).term() for a in o.meta["added"]]
    return VBool(t=z3.Or(terms))


def ext_contains(I, ref, o, x):             # noqa: F811
    if o.meta.get("tag") == "pset":
        return pset_contains(I, ref, o, x)
    raise Unsupported(f"`in` on {o.kind}/{o.meta.get('tag')}")


def pset_attr(I, ref, o, name):
    from .interp import VBuiltin
    return VBuiltin("pset." + name, ref)


def pset_call(I, fv, args, kw):
    o = I.hobj(fv.self_val)
    name = fv.name.split(".")[-1]
    if name == "add":
        I.log_write(("cont", fv.self_val.ref))
        o.meta["added"] = o.meta["added"] + [args[0]]
        I.path.ghost.setdefault("events", {}).setdefault("added:" + o.meta.get("label", "set"), []).append(args[0])
        return NONE
    raise Unsupported(f"set method {name} on an unbounded set")


def asyncio_create_task(I, fv, args, kw):
    used(I, "asyncio.create_task(coro): schedules the coroutine; its body runs later (verified separately against its own contract)")
    t = ext_obj(I, "task", coro=args[0])
    I.path.ghost.setdefault("events", {}).setdefault("task_created", []).append(t)
    return t


def asyncio_ensure_future(I, fv, args, kw):
    used(I, "asyncio.ensure_future/create_task(aw) + asyncio.wait({t}, timeout): the task is done (its awaitable ran) or still pending at the "
            "timeout; a pending Queue.get() task stays registered as a consumer of the queue until it is cancelled")
    return ext_obj(I, "task", coro=args[0], state="pending")


def asyncio_wait(I, fv, args, kw):
    from .interp import VCoro
    tasks = I.iterate(args[0])
    if len(tasks) != 1 or not isinstance(tasks[0], VRef) or I.hobj(tasks[0]).meta.get("tag") != "task":
        raise Unsupported("asyncio.wait on anything but one task")
    t = tasks[0]
    to = I.hobj(t)

    def thunk():
        k = I.path.choose(2, "wait_done")
        env_step(I)
        if k == 0:
            from .interp import PyRaise
            try:
                to.meta["result"] = I.await_(to.meta["coro"])
            except PyRaise as e:
                to.meta["exc"] = e
            to.meta["state"] = "done"
            return VTuple([I.new_set([t]), I.new_set([])])
        q = getattr(to.meta["coro"], "queue", None)
        if q is not None:
            q.meta["pending_getters"] = q.meta.get("pending_getters", 0) + 1
            to.meta["registered"] = q
        return VTuple([I.new_set([]), I.new_set([t])])
    return VCoro(thunk)


def task_attr(I, ref, o, name):
    from .interp import VBuiltin
    return VBuiltin("task." + name, ref)


def task_call(I, fv, args, kw):
    o = I.hobj(fv.self_val)
    name = fv.name.split(".")[-1]
    if name == "result":
        if o.meta.get("state") != "done":
            raise Unsupported("result() of a task that is not done")
        if "exc" in o.meta:
            raise o.meta["exc"]
        return o.meta["result"]
    if name == "done":
        return mkbool(o.meta.get("state") == "done")
    if name == "cancel":
        q = o.meta.pop("registered", None)
        if q is not None:
            q.meta["pending_getters"] = q.meta.get("pending_getters", 0) - 1
        if o.meta.get("state") != "done":
            o.meta["state"] = "cancelled"
        return mkbool(True)
    if name == "add_done_callback":
        # the callback runs at some later point of the schedule, outside the function under contract: its effect cannot be stated
        # as a post-condition of this function, so a function registering one is outside the subset (undecided, never proved)
        raise Unsupported("task.add_done_callback: effects of callbacks that run after the function returned are not modelled")
    raise Unsupported(f"task method {name}")


_EXT_ATTR.update({"task": task_attr})
_LIB_PREFIX.update({"task.": task_call})
_LIB.update({"asyncio.create_task": asyncio_create_task, "asyncio.ensure_future": asyncio_ensure_future, "asyncio.wait": asyncio_wait})
_EXT_ATTR.update({"pset": pset_attr})
_LIB_PREFIX.update({"pset.": pset_call})
_EXT_MAKE.update({"pset": make_pset})


# ===============================================================================================
# httpx, json, urllib, secrets, hmac (cloud.py): opaque deterministic functions + assumed raise conditions
# ===============================================================================================

def make_client(I, cs, typ, name):
    return ext_obj(I, "http_client")


def client_factory_call(I, fv, o, args, kw):
    c = ext_obj(I, "http_client")
    I.hobj(c).meta["enter"] = c
    return c


def client_attr(I, ref, o, name):
    from .interp import VBuiltin
    return VBuiltin("http." + name, ref)


def http_call(I, fv, args, kw):
    from .interp import VCoro
    name = fv.name.split(".")[-1]
    if name in ("post", "get"):
        used(I, "httpx client.post/get: a response, httpx.TimeoutException, or another httpx.HTTPError")

        def thunk():
            I.path.ghost.setdefault("events", {}).setdefault("http_" + name, []).append(VTuple(list(args) + [kw.get("headers", NONE), kw.get("content", NONE), kw.get("data", NONE)]))
            # one representative of every branch of httpx's exception tree below HTTPError that a request can raise
            outcomes = [None, "httpx.ReadTimeout", "httpx.ConnectError", "httpx.RemoteProtocolError", "httpx.DecodingError", "httpx.TooManyRedirects"]
            k = I.path.choose(len(outcomes), "http")
            env_step(I)
            if outcomes[k] is not None:
                I.raise_py(outcomes[k], "request failed")
            return ext_obj(I, "http_response")
        return VCoro(thunk)
    raise Unsupported(f"http client method {name}")


def response_attr(I, ref, o, name):
    from .interp import VBuiltin
    if name == "text":
        return I.opaque_str("resp_text", ref.ref)
    if name == "content":
        return B.opaque_bytes(I, "resp_content", [ref], B.opaque_int(I, "resp_len", [ref], 0, MAXLEN).as_int())
    return VBuiltin("httpresp." + name, ref)


def response_call(I, fv, args, kw):
    name = fv.name.split(".")[-1]
    if name == "raise_for_status":
        used(I, "response.raise_for_status(): HTTPStatusError (an HTTPError) or nothing")
        if I.path.choose(2, "http_status") == 1:
            I.raise_py("httpx.HTTPStatusError", "status")
        return NONE
    raise Unsupported(f"http response method {name}")


def json_loads(I, fv, args, kw):
    used(I, "json.loads: an arbitrary JSON value (uninterpreted, deterministic); json.JSONDecodeError otherwise")
    s = I.resolve(args[0])
    ok = B.opaque_bool(I, "json_ok", [s])
    if not I.path.branch(ok.term(), "json"):
        I.raise_py("json.JSONDecodeError", "bad json")
    return ext_obj(I, "json", src=B.vkey(I, s), path=())


def json_getitem(I, base, o, idx):
    used(I, "JSON object access: KeyError/TypeError when the member is missing (uninterpreted), else a deterministic value")
    has = B.opaque_bool(I, "json_has", [base, idx])
    if not I.path.branch(has.term(), "json_key"):
        I.raise_py("builtins.KeyError", "missing member")
    key = ("json_member", base.ref, B.vkey(I, idx))
    if key not in I.path.memo:
        I.path.memo[key] = ext_obj(I, "json", src=o.meta["src"], path=o.meta["path"] + (B.vkey(I, idx),))
    return I.path.memo[key]


def json_dumps(I, fv, args, kw):
    return I.opaque_str("json_dumps", B.vkey(I, args[0]) if not isinstance(args[0], VRef) else args[0].ref)


def os_getenv(I, fv, a, k):
    """the process environment is arbitrary: the variable is set (to an arbitrary string) or not (default / None)"""
    used(I, "os.getenv: the environment is arbitrary (variable set to an arbitrary string, or unset)")
    key = I.resolve(a[0])
    default = a[1] if len(a) > 1 else k.get("default", NONE)
    present = B.opaque_bool(I, "env_set", [key])
    val = I.opaque_str("env", B.vkey(I, key))
    return VUnion([(present.term(), val), (z3.Not(present.term()), default)])


def hmac_new(I, fv, args, kw):
    used(I, "hmac.new(key, msg, digestmod).hexdigest(): deterministic uninterpreted function of key, message and digest")
    key = I.resolve(args[0])
    msg = I.resolve(args[1]) if len(args) > 1 else I.resolve(kw.get("msg", VBytes([])))
    dig = args[2] if len(args) > 2 else kw.get("digestmod")
    dn = getattr(dig, "name", None) or getattr(dig, "qualname", None) or repr(dig)
    return ext_obj(I, "hmac", key=key, msg=msg, dig=str(dn))


def hmac_attr(I, ref, o, name):
    from .interp import VBuiltin
    return VBuiltin("hmacobj." + name, ref)


def hmac_call(I, fv, args, kw):
    o = I.hobj(fv.self_val)
    name = fv.name.split(".")[-1]
    if name in ("hexdigest", "digest"):
        key, msg = o.meta["key"], o.meta["msg"]
        if isinstance(key, VBytes) and isinstance(msg, VBytes) and key.is_concrete() and msg.is_concrete() and "sha256" in o.meta["dig"]:
            import hashlib
            import hmac as _hmac
            d = _hmac.new(key.concrete(), msg.concrete(), hashlib.sha256)
            return VStr(c=d.hexdigest()) if name == "hexdigest" else VBytes.lit(d.digest())
        if name == "hexdigest":
            return I.opaque_str("hmac_hex", o.meta["dig"], B.deep_key(I, key), B.deep_key(I, msg))
        return B.opaque_bytes(I, "hmac_" + o.meta["dig"], [key, msg], 32)
    raise Unsupported(f"hmac method {name}")


def opaque_str_fn(tag):
    def f(I, fv, args, kw):
        return I.opaque_str(tag, *[B.deep_key(I, a) for a in args])
    return f


def urlparse_call(I, fv, args, kw):
    used(I, "urllib.parse.urlparse/urlencode/unquote_plus: deterministic uninterpreted functions of their arguments")
    return ext_obj(I, "urlparse", url=args[0])


def urlparse_attr(I, ref, o, name):
    u = o.meta["url"]
    return I.opaque_str("urlparse_" + name, B.vkey(I, u) if not isinstance(u, VRef) else ("r", u.ref))


_LIB.update({"urllib.parse.urlparse": urlparse_call})
_EXT_ATTR.update({"urlparse": urlparse_attr})
_LIB.update({"json.loads": json_loads, "json.dumps": json_dumps,
             "secrets.token_hex": lambda I, fv, a, k: VStr(t=z3.Const(fresh("token_hex"), B.STR if hasattr(B, "STR") else None)) if False else I.opaque_str("token_hex", fresh("r")),
             "secrets.token_urlsafe": lambda I, fv, a, k: I.opaque_str("token_urlsafe", fresh("r")),
             "urllib.parse.urlencode": opaque_str_fn("urlencode"), "urllib.parse.unquote_plus": opaque_str_fn("unquote_plus"),
             "os.getenv": os_getenv, "hmac.new": hmac_new})
_EXT_ATTR.update({"http_client": client_attr, "http_response": response_attr})
_LIB_PREFIX.update({"http.": http_call, "httpresp.": response_call, "hmacobj.": hmac_call})
_EXT_ATTR.update({"hmac": hmac_attr})
_EXT_MAKE.update({"http_client": make_client})
_EXT_CALL.update({"client_factory": client_factory_call})


def ext_getitem2(I, base, o, idx):
    if o.meta.get("tag") == "json":
        return json_getitem(I, base, o, idx)
    return None


def make_client_factory(I, cs, typ, name):
    return ext_obj(I, "client_factory")


def make_lock(I, cs=None, typ=None, name="lock"):
    return ext_obj(I, "lock")


def make_json(I, cs, typ, name):
    return ext_obj(I, "json", src=("input", fresh(name)), path=())


def json_len(I, ref):
    return B.opaque_int(I, "json_len", [ref], 0, MAXLEN)


def json_child(I, ref, idx):
    o = I.hobj(ref)
    key = ("json_member", ref.ref, B.vkey(I, idx))
    if key not in I.path.memo:
        I.path.memo[key] = ext_obj(I, "json", src=o.meta["src"], path=o.meta["path"] + (B.vkey(I, idx),))
    return I.path.memo[key]


def ext_eq(I, a, oa, b, ob):                # noqa: F811
    if a.ref == b.ref:
        return B.TRUE
    if oa.meta.get("tag") == "json" or ob.meta.get("tag") == "json":
        x, y = (a, b) if a.ref <= b.ref else (b, a)
        return B.opaque_bool(I, "json_eq", [x, y])
    return mkbool(False)


def eq_ext_value(I, ref, other):
    """equality of an ext object (JSON value) with a plain value: uninterpreted, deterministic"""
    return B.opaque_bool(I, "json_eq_val", [ref, other])


def call_ext_object(I, fv, o, args, kwargs):        # noqa: F811
    tag = o.meta.get("tag")
    if tag == "namedtuple_type":
        names = o.meta["fields"]
        inst = HObj("ext", None, {}, meta={"tag": "namedtuple", "fields": names})
        for n, v in zip(names, list(args)):
            inst.fields[n] = v
        for k, v in kwargs.items():
            inst.fields[k] = v
        return VRef(I.path.alloc(inst))
    h = _EXT_CALL.get(tag)
    if h is not None:
        return h(I, fv, o, args, kwargs)
    raise Unsupported(f"call of ext object {tag}")


_LIB.update({"asyncio.Lock": lambda I, fv, a, k: make_lock(I)})
_EXT_MAKE.update({"client_factory": make_client_factory, "lock": make_lock, "json": make_json})


def make_http_response(I, cs, typ, name):
    return ext_obj(I, "http_response")


def int_of_ext(I, a):
    used(I, "int(json value): ValueError/TypeError iff it is not numeric (uninterpreted predicate); otherwise a deterministic integer")
    ok = B.opaque_bool(I, "json_int_ok", [a])
    if not I.path.branch(ok.term(), "int_of_json"):
        I.raise_py("builtins.ValueError", "invalid literal for int()")
    return B.opaque_int(I, "json_int", [a])


_EXT_MAKE.update({"http_response": make_http_response})
