"""Assumed contracts of library functions (struct, math, time, hashlib, pycryptodome, asyncio, ...).

Each model is listed in the evidence as part of the trusted base; the thorough tier audits them
against the real libraries on boundary inputs (pyvc/audit.py).
"""
from __future__ import annotations

import ast

import z3

from . import builtins as B
from . import ops
from .loader import ClassInfo, builtin_class
from .values import (ARR, FALSE, INT, MAXLEN, NONE, TRUE, W, HObj, Lit, Unsupported, V, VBool, VBytes, VFloat,
                     VInt, VNone, VRef, VStr, VTuple, VUnion, View, as_const, byte_val, concat, fresh, iadd,
                     isub, mkbool, mkint, _iv)


def used(I, name):
    I.path.assumption("library contract: " + name)


def ext_obj(I, tag, cls=None, **meta):
    meta["tag"] = tag
    return VRef(I.path.alloc(HObj("ext", cls, {}, meta=meta)))


# ---------------------------------------------------------------------------------------------
def call(I, fv, args, kw):
    name = fv.name
    fn = _LIB.get(name)
    if fn is None:
        raise Unsupported(f"no model for {name}")
    return fn(I, fv, args, kw)


def struct_pack(I, fv, args, kw):
    used(I, "struct.pack")
    fmt = args[0]
    if not (isinstance(fmt, VStr) and fmt.c is not None):
        raise Unsupported("struct.pack format")
    f = fmt.c
    vals = args[1:]
    if f == "<H":
        if len(vals) != 1:
            I.raise_py("struct.error", "pack expected 1 item")
        v = I.resolve(vals[0])
        if isinstance(v, VBool):
            v = ops._to_intlike(I, v)
        if not isinstance(v, VInt):
            I.raise_py("struct.error", "required argument is not an integer")
        if v.c is not None:
            if not 0 <= v.c <= 0xFFFF:
                I.raise_py("struct.error", "ushort format requires 0 <= number <= 65535")
        elif not (v.lo is not None and v.lo >= 0 and v.hi is not None and v.hi <= 0xFFFF):
            bad = z3.Or(ops.int_cmp("<", v, mkint(0)).term(), ops.int_cmp(">", v, mkint(0xFFFF)).term())
            if I.path.branch(bad, "struct.error"):
                I.raise_py("struct.error", "ushort format requires 0 <= number <= 65535")
        v2 = VInt(c=v.c, b=v.b, i=v.i, lo=0, hi=0xFFFF)
        return B.int_to_bytes(I, v2, 2, "little")
    if set(f) == {"B"}:
        if len(vals) != len(f):
            I.raise_py("struct.error", "pack expected items")
        out = []
        for x in vals:
            x = I.resolve(x)
            if isinstance(x, VFloat):
                I.raise_py("struct.error", "required argument is not an integer")
            from .interp import PyRaise
            try:
                out.append(I.to_byte(x))
            except PyRaise as e:
                I.raise_py("struct.error", "ubyte format requires 0 <= number <= 255")
        return VBytes([Lit(out)])
    raise Unsupported(f"struct.pack format {f}")


def struct_unpack(I, fv, args, kw):
    used(I, "struct.unpack")
    fmt, data = args
    if not (isinstance(fmt, VStr) and fmt.c == "<H"):
        raise Unsupported("struct.unpack format")
    data = I.resolve(data)
    n = data.length()
    if isinstance(n, int):
        if n != 2:
            I.raise_py("struct.error", "unpack requires a buffer of 2 bytes")
    elif I.path.branch(_iv(n) != 2, "struct.error"):
        I.raise_py("struct.error", "unpack requires a buffer of 2 bytes")
    lo, hi = byte_val(data.at(0)), byte_val(data.at(1))
    v = ops._bitop(I, "|", lo, ops._shift(I, "<<", hi, mkint(8)))
    return VTuple([v])


def math_modf(I, fv, args, kw):
    used(I, "math.modf (float treated as exact rational)")
    x = I.resolve(args[0])
    if isinstance(x, (VInt, VBool)):
        x = B.call_type(I, B.VType("float"), [x], {})
    if not isinstance(x, VFloat):
        I.raise_py("builtins.TypeError", "must be real number")
    if x.c is not None:
        import math
        f, i = math.modf(x.c)
        return VTuple([VFloat(c=f), VFloat(c=i)])
    ip = z3.ToReal(ops.trunc_real(x.t))
    return VTuple([VFloat(t=x.t - ip), VFloat(t=ip)])


def time_time(I, fv, args, kw):
    used(I, "time.time")
    return VFloat(t=z3.Real(fresh("time")))


def logging_getLogger(I, fv, args, kw):
    from .interp import VBuiltin
    return VBuiltin("logger")


_LIB = {
    "struct.pack": struct_pack,
    "struct.unpack": struct_unpack,
    "math.modf": math_modf,
    "time.time": time_time,
    "logging.getLogger": logging_getLogger,
}


# ---- hooks referenced from builtins.py ------------------------------------------------------------

def inst_ext_attr(I, ref, o, name):
    return None


def ext_attr_of(I, ref, o, name):
    tag = o.meta.get("tag")
    if tag == "namedtuple":
        if name in o.fields:
            return o.fields[name]
    h = _EXT_ATTR.get(tag)
    if h is not None:
        return h(I, ref, o, name)
    raise Unsupported(f"attribute {name} of ext object {tag}")


def call_ext_object(I, fv, o, args, kwargs):
    tag = o.meta.get("tag")
    if tag == "namedtuple_type":
        names = o.meta["fields"]
        vals = list(args)
        inst = HObj("ext", None, {}, meta={"tag": "namedtuple", "fields": names})
        for n, v in zip(names, vals):
            inst.fields[n] = v
        for k, v in kwargs.items():
            inst.fields[k] = v
        return VRef(I.path.alloc(inst))
    h = _EXT_CALL.get(tag)
    if h is not None:
        return h(I, fv, o, args, kwargs)
    raise Unsupported(f"call of ext object {tag}")


def ext_eq(I, a, oa, b, ob):
    return mkbool(a.ref == b.ref)


def order_ref(I, o, a, b):
    raise Unsupported("ordering of objects")


def ext_contains(I, ref, o, x):
    raise Unsupported(f"`in` on {o.kind}/{o.meta.get('tag')}")


def ext_getitem(I, base, o, idx):
    raise Unsupported(f"subscript of {o.kind}/{o.meta.get('tag')}")


def make_ext(I, cs, typ, name):
    h = _EXT_MAKE.get(typ.split(":")[0])
    if h is None:
        raise Unsupported(f"ext type {typ}")
    return h(I, cs, typ, name)


def async_generator(I, fv, args, kwargs):
    raise Unsupported("async generator")


def bytes_decode(I, vb, args, kw):
    raise Unsupported("bytes.decode")


def str_method(I, fv, args, kw):
    name = fv.name.split(".")[-1]
    s = fv.self_val
    if s.c is not None and all(isinstance(a, (VStr, VInt)) and a.c is not None for a in args):
        pa = [a.c for a in args]
        if name in ("startswith", "endswith"):
            return mkbool(getattr(s.c, name)(*pa))
        if name in ("upper", "lower", "capitalize", "strip"):
            return VStr(c=getattr(s.c, name)(*pa))
        if name == "encode":
            try:
                return VBytes.lit(s.c.encode(*pa))
            except UnicodeEncodeError:
                I.raise_py("builtins.UnicodeEncodeError", "encode")
        if name == "split":
            return I.new_list([VStr(c=x) for x in s.c.split(*pa)])
        if name == "join":
            pass
    if name == "startswith" and isinstance(args[0], VStr) and args[0].c is not None:
        return B.opaque_bool(I, "str_startswith", [s, args[0]])
    raise Unsupported(f"str method {name}")


def int_of_str(I, a, rest, kw):
    if a.c is not None and all(isinstance(x, VInt) and x.c is not None for x in rest):
        try:
            return mkint(int(a.c, *[x.c for x in rest]))
        except ValueError:
            I.raise_py("builtins.ValueError", "invalid literal for int()")
    raise Unsupported("int() of a symbolic string")


def str_of(I, a):
    return I.opaque_str("str", B.vkey(I, a))


_EXT_ATTR = {}
_EXT_CALL = {}
_EXT_MAKE = {}
