"""Locate and parse the real source of /repo on every run (text only, never imported)."""
from __future__ import annotations

import ast
import os

from .values import V, Unsupported

REPO = os.environ.get("PYVC_REPO", "/repo")


class ClassInfo(V):
    def __init__(self, name, qualname, module, node=None, bases=(), builtin=False):
        self.name = name
        self.qualname = qualname
        self.module = module
        self.node = node
        self.bases = list(bases)
        self.builtin = builtin
        self.methods = {}       # name -> ast.FunctionDef / AsyncFunctionDef
        self.assigns = {}       # name -> ast expr   (class level assignments, in order)
        self.inner = {}         # nested classes
        self.outer = None
        self._mro = None

    def mro(self):
        if self._mro is None:
            out = [self]
            for b in self.bases:
                for c in b.mro():
                    if c not in out:
                        out.append(c)
            self._mro = out
        return self._mro

    def issub(self, other):
        return other in self.mro()

    def find_method(self, name, after=None):
        m = self.mro()
        if after is not None:
            m = m[m.index(after) + 1:]
        for c in m:
            if name in c.methods:
                return c, c.methods[name]
        return None, None

    def find_assign(self, name):
        for c in self.mro():
            if name in c.assigns:
                return c, c.assigns[name]
            if name in c.inner:
                return c, c.inner[name]
        return None, None

    @property
    def is_enum(self):
        return any(c.qualname == "enum.IntEnum" for c in self.mro())

    @property
    def is_exception(self):
        return any(c.qualname == "builtins.BaseException" for c in self.mro())

    def __repr__(self):
        return f"<class {self.qualname}>"


_BUILTIN_CLASSES = {}


def bcls(qual, *bases):
    name = qual.split(".")[-1]
    c = ClassInfo(name, qual, None, bases=[_BUILTIN_CLASSES[b] for b in bases], builtin=True)
    _BUILTIN_CLASSES[qual] = c
    return c


bcls("builtins.object")
bcls("builtins.BaseException", "builtins.object")
bcls("builtins.Exception", "builtins.BaseException")
bcls("asyncio.CancelledError", "builtins.BaseException")
bcls("builtins.KeyboardInterrupt", "builtins.BaseException")
for _n, _p in [("ArithmeticError", "Exception"), ("ZeroDivisionError", "ArithmeticError"), ("OverflowError", "ArithmeticError"),
               ("AssertionError", "Exception"), ("AttributeError", "Exception"), ("LookupError", "Exception"),
               ("IndexError", "LookupError"), ("KeyError", "LookupError"), ("OSError", "Exception"),
               ("TimeoutError", "OSError"), ("ConnectionError", "OSError"), ("ConnectionRefusedError", "ConnectionError"),
               ("ConnectionResetError", "ConnectionError"),
               ("RuntimeError", "Exception"), ("NotImplementedError", "RuntimeError"), ("TypeError", "Exception"),
               ("ValueError", "Exception"), ("UnicodeError", "ValueError"), ("UnicodeDecodeError", "UnicodeError"),
               ("UnicodeEncodeError", "UnicodeError"), ("SyntaxError", "Exception"), ("StopIteration", "Exception"),
               ("NameError", "Exception"), ("UnboundLocalError", "NameError")]:
    bcls("builtins." + _n, "builtins." + _p)
bcls("asyncio.QueueEmpty", "builtins.Exception")
bcls("struct.error", "builtins.Exception")
bcls("xml.etree.ElementTree.ParseError", "builtins.SyntaxError")
bcls("ipaddress.AddressValueError", "builtins.ValueError")
bcls("json.JSONDecodeError", "builtins.ValueError")
bcls("httpx.HTTPError", "builtins.Exception")
bcls("httpx.RequestError", "httpx.HTTPError")
bcls("httpx.TransportError", "httpx.RequestError")
bcls("httpx.TimeoutException", "httpx.TransportError")
bcls("httpx.HTTPStatusError", "httpx.HTTPError")
for _n, _p in [("ConnectTimeout", "TimeoutException"), ("ReadTimeout", "TimeoutException"), ("WriteTimeout", "TimeoutException"),
               ("PoolTimeout", "TimeoutException"), ("NetworkError", "TransportError"), ("ConnectError", "NetworkError"),
               ("ReadError", "NetworkError"), ("WriteError", "NetworkError"), ("CloseError", "NetworkError"),
               ("ProtocolError", "TransportError"), ("LocalProtocolError", "ProtocolError"), ("RemoteProtocolError", "ProtocolError"),
               ("ProxyError", "TransportError"), ("UnsupportedProtocol", "TransportError"), ("DecodingError", "RequestError"),
               ("TooManyRedirects", "RequestError")]:
    bcls("httpx." + _n, "httpx." + _p)
bcls("enum.IntEnum", "builtins.object")
bcls("asyncio.Protocol", "builtins.object")
bcls("asyncio.DatagramProtocol", "builtins.object")
# aliases (python >= 3.11)
_BUILTIN_CLASSES["asyncio.TimeoutError"] = _BUILTIN_CLASSES["builtins.TimeoutError"]
_BUILTIN_CLASSES["builtins.IOError"] = _BUILTIN_CLASSES["builtins.OSError"]


def builtin_class(q):
    return _BUILTIN_CLASSES[q]


def has_builtin_class(q):
    return q in _BUILTIN_CLASSES


class ModuleInfo(V):
    def __init__(self, name, path):
        self.name = name
        self.path = path
        with open(path) as f:
            self.source = f.read()
        self.tree = ast.parse(self.source, path)
        self.defs = {}      # name -> ('class', ClassInfo) | ('func', node) | ('assign', expr) | ('import', target)
        self.cache = {}

    def __repr__(self):
        return f"<module {self.name}>"


class ExtModule(V):
    """stub for a library module (struct, math, asyncio, ...)"""

    def __init__(self, name):
        self.name = name

    def __repr__(self):
        return f"<extmodule {self.name}>"


class Loader:
    def __init__(self, repo=REPO):
        self.repo = repo
        self.modules = {}

    def path_of(self, modname):
        p = os.path.join(self.repo, *modname.split("."))
        if os.path.isdir(p):
            return os.path.join(p, "__init__.py")
        return p + ".py"

    def is_repo_module(self, modname):
        if modname in self.modules:
            return True
        return modname.split(".")[0] == "msmart" and os.path.exists(self.path_of(modname))

    def module(self, modname) -> ModuleInfo:
        if modname in self.modules:
            return self.modules[modname]
        path = self.path_of(modname)
        if not os.path.exists(path):
            raise Unsupported(f"module {modname} not found")
        m = ModuleInfo(modname, path)
        self.modules[modname] = m
        self._index(m)
        return m

    def _resolve_relative(self, m: ModuleInfo, node: ast.ImportFrom):
        if node.level == 0:
            return node.module
        parts = m.name.split(".")
        if not m.path.endswith("__init__.py"):
            parts = parts[:-1]
        parts = parts[:len(parts) - (node.level - 1)]
        if node.module:
            parts.append(node.module)
        return ".".join(parts)

    def _index(self, m: ModuleInfo):
        for node in m.tree.body:
            if isinstance(node, ast.ClassDef):
                m.defs[node.name] = ("class", node)
            elif isinstance(node, (ast.FunctionDef, ast.AsyncFunctionDef)):
                m.defs[node.name] = ("func", node)
            elif isinstance(node, ast.Assign):
                for t in node.targets:
                    if isinstance(t, ast.Name):
                        m.defs[t.id] = ("assign", node.value)
            elif isinstance(node, ast.AnnAssign) and isinstance(node.target, ast.Name) and node.value is not None:
                m.defs[node.target.id] = ("assign", node.value)
            elif isinstance(node, ast.Import):
                for a in node.names:
                    if a.asname:
                        m.defs[a.asname] = ("module", a.name)
                    else:
                        m.defs[a.name.split(".")[0]] = ("module", a.name.split(".")[0])
            elif isinstance(node, ast.ImportFrom):
                src = self._resolve_relative(m, node)
                for a in node.names:
                    m.defs[a.asname or a.name] = ("from", src, a.name)

    def build_class(self, m: ModuleInfo, node: ast.ClassDef, interp, outer=None) -> ClassInfo:
        key = ("cls", id(node))
        if key in m.cache:
            return m.cache[key]
        qual = (outer.qualname if outer else m.name) + "." + node.name
        bases = []
        for b in node.bases:
            bv = interp.eval_static(b, m, outer)
            if not isinstance(bv, ClassInfo):
                raise Unsupported(f"base class of {qual} is not a class: {ast.dump(b)}")
            bases.append(bv)
        if not bases:
            bases = [builtin_class("builtins.object")]
        c = ClassInfo(node.name, qual, m, node, bases)
        c.outer = outer
        m.cache[key] = c
        for st in node.body:
            if isinstance(st, (ast.FunctionDef, ast.AsyncFunctionDef)):
                # property setters share the name; keep getter under name, setter under name.setter
                deco = [ast.unparse(d) for d in st.decorator_list]
                if any(d.endswith(".setter") for d in deco):
                    c.methods[st.name + ".setter"] = st
                else:
                    c.methods[st.name] = st
            elif isinstance(st, ast.Assign):
                for t in st.targets:
                    if isinstance(t, ast.Name):
                        c.assigns[t.id] = st.value
            elif isinstance(st, ast.AnnAssign) and isinstance(st.target, ast.Name) and st.value is not None:
                c.assigns[st.target.id] = st.value
            elif isinstance(st, ast.ClassDef):
                c.inner[st.name] = st
        return c

    def mutable_class_attrs(self):
        """(class name, attribute) pairs that are assigned through the class somewhere in the repository"""
        if getattr(self, "_mut", None) is not None:
            return self._mut
        out = set()
        root = os.path.join(self.repo, "msmart")
        MUTATORS = {"add", "append", "extend", "update", "pop", "remove", "discard", "clear", "insert", "setdefault", "popitem",
                    "appendleft", "popleft", "put_nowait", "sort", "reverse", "__setitem__", "__delitem__"}
        containers = {}     # attribute name -> class names that initialise it with a mutable container in the class body
        mutated = set()     # attribute names mutated in place somewhere (through any object expression)
        for dp, dn, fn in os.walk(root):
            for f in fn:
                if not f.endswith(".py") or f.startswith("test_") or os.path.basename(dp) == "tests":
                    continue
                try:
                    tree = ast.parse(open(os.path.join(dp, f)).read())
                except SyntaxError:
                    continue
                for n in ast.walk(tree):
                    if isinstance(n, ast.Call) and isinstance(n.func, ast.Attribute) and n.func.attr in MUTATORS and isinstance(n.func.value, ast.Attribute):
                        mutated.add(n.func.value.attr)
                    tg = n.targets if isinstance(n, (ast.Assign, ast.Delete)) else [n.target] if isinstance(n, ast.AugAssign) else []
                    for t in tg:
                        if isinstance(t, ast.Subscript) and isinstance(t.value, ast.Attribute):
                            mutated.add(t.value.attr)
                        if isinstance(n, ast.AugAssign) and isinstance(t, ast.Attribute):
                            mutated.add(t.attr)
                for cls in [n for n in ast.walk(tree) if isinstance(n, ast.ClassDef)]:
                    for st in cls.body:
                        val = st.value if isinstance(st, (ast.Assign, ast.AnnAssign)) else None
                        names = [t.id for t in (st.targets if isinstance(st, ast.Assign) else [st.target] if isinstance(st, ast.AnnAssign) else []) if isinstance(t, ast.Name)]
                        if val is None or not names:
                            continue
                        def _cont(v):
                            if isinstance(v, (ast.List, ast.Dict, ast.Set, ast.ListComp, ast.DictComp, ast.SetComp)):
                                return True
                            if isinstance(v, ast.Call) and (getattr(v.func, "id", None) or getattr(v.func, "attr", None)) in (
                                    "set", "list", "dict", "bytearray", "deque", "defaultdict", "OrderedDict", "Queue", "Counter"):
                                return True
                            if isinstance(v, ast.BinOp) and isinstance(v.op, (ast.Add, ast.Mult, ast.BitOr)):
                                return _cont(v.left) or _cont(v.right)
                            return False
                        is_cont = _cont(val)
                        if is_cont:
                            for nm in names:
                                containers.setdefault(nm, set()).add(cls.name)
                    for n in ast.walk(cls):
                        tgts = []
                        if isinstance(n, ast.Assign):
                            tgts = n.targets
                        elif isinstance(n, (ast.AugAssign, ast.AnnAssign)):
                            tgts = [n.target]
                        for t in tgts:
                            if isinstance(t, ast.Attribute) and isinstance(t.value, ast.Name):
                                if t.value.id == "cls" or t.value.id == cls.name:
                                    out.add((cls.name, t.attr))
                                elif t.value.id[:1].isupper():
                                    out.add((t.value.id, t.attr))
                            elif isinstance(t, ast.Attribute) and isinstance(t.value, ast.Call) and isinstance(t.value.func, ast.Name) and t.value.func.id == "type":
                                out.add(("*", t.attr))
        # ... including through a local alias: `buf = Cls.attr` (no copy) followed by an in-place update of `buf`
        for dp, dn, fn in os.walk(root):
            for f in fn:
                if not f.endswith(".py") or f.startswith("test_") or os.path.basename(dp) == "tests":
                    continue
                try:
                    tree = ast.parse(open(os.path.join(dp, f)).read())
                except SyntaxError:
                    continue
                for fdef in [n for n in ast.walk(tree) if isinstance(n, (ast.FunctionDef, ast.AsyncFunctionDef))]:
                    alias = {}
                    for n in ast.walk(fdef):
                        if isinstance(n, ast.Assign) and isinstance(n.value, ast.Attribute) and n.value.attr in containers:
                            for t in n.targets:
                                if isinstance(t, ast.Name):
                                    alias[t.id] = n.value.attr
                    if not alias:
                        continue
                    for n in ast.walk(fdef):
                        if isinstance(n, ast.Call) and isinstance(n.func, ast.Attribute) and n.func.attr in MUTATORS and isinstance(n.func.value, ast.Name) and n.func.value.id in alias:
                            mutated.add(alias[n.func.value.id])
                        tg = n.targets if isinstance(n, (ast.Assign, ast.Delete)) else [n.target] if isinstance(n, ast.AugAssign) else []
                        for t in tg:
                            if isinstance(t, ast.Subscript) and isinstance(t.value, ast.Name) and t.value.id in alias:
                                mutated.add(alias[t.value.id])
                            if isinstance(n, ast.AugAssign) and isinstance(t, ast.Name) and t.id in alias:
                                mutated.add(alias[t.id])
        # a container created once in a class body and mutated in place anywhere is shared state with a history
        for nm, clss in containers.items():
            if nm in mutated:
                for cn in clss:
                    out.add((cn, nm))
        self._mut = out
        return out

    def find_function(self, qualname):
        """qualname like msmart.lan._Packet.decode -> (ModuleInfo, [class nodes...], funcnode)"""
        parts = qualname.split(".")
        for k in range(len(parts) - 1, 0, -1):
            modname = ".".join(parts[:k])
            if self.is_repo_module(modname) and not os.path.isdir(os.path.join(self.repo, *parts[:k + 1])):
                m = self.module(modname)
                rest = parts[k:]
                return m, rest
        raise Unsupported(f"cannot locate {qualname}")
