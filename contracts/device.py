"""Contracts for msmart.base_device.Device and msmart.device.AC.device.AirConditioner
(C10 call site, C11, C13, C14, C15 paging, C16)."""
from pyvc.dsl import contract, events, fields, fold, implies, lemma, old, opaque, pre, same_object
from contracts.response import CAP_KEYS, PROP_KEYS, accepts, state_decode
from contracts.capabilities import merged
from msmart.device.AC.command import (CapabilitiesResponse, Command, EnergyUsageResponse, GetCapabilitiesCommand,
                                      GetEnergyUsageCommand, GetHumidityCommand, GetPropertiesCommand, GetStateCommand,
                                      HumidityResponse, PropertiesResponse, PropertyId, Response, SetPropertiesCommand,
                                      SetStateCommand, StateResponse, ToggleDisplayCommand)
from msmart.device.AC.device import AirConditioner

CMD = "msmart.device.AC.command."
AC = "msmart.device.AC.device.AirConditioner"
DEV = "msmart.base_device.Device"

fields(DEV, _ip="str", _port="int", _id="int", _type="int", _sn="opt:str", _name="opt:str", _version="opt:int",
       _lan="obj:msmart.lan.LAN", _supported="bool", _online="bool")

fields(AC,
       _beep_on="bool", _power_state="opt:bool", _target_temperature="opt:float",
       _operational_mode="enum:" + AC + ".OperationalMode", _fan_speed="union:enum:" + AC + ".FanSpeed|int[0,255]",
       _swing_mode="enum:" + AC + ".SwingMode", _eco="opt:bool", _turbo="opt:bool", _freeze_protection="opt:bool",
       _sleep="opt:bool", _fahrenheit_unit="opt:bool", _display_on="opt:bool", _filter_alert="opt:bool",
       _follow_me="opt:bool", _purifier="opt:bool", _target_humidity="opt:int[0,127]",
       _supported_op_modes="list:opaque", _supported_swing_modes="list:opaque", _supported_fan_speeds="list:opaque",
       _supports_custom_fan_speed="bool", _supports_eco="bool", _supports_turbo="bool", _supports_freeze_protection="bool",
       _supports_display_control="bool", _supports_filter_reminder="bool", _supports_purifier="bool",
       _supports_humidity="bool", _supports_target_humidity="bool", _min_target_temperature="float",
       _max_target_temperature="float", _indoor_temperature="opt:float", _indoor_humidity="opt:int[0,255]",
       _outdoor_temperature="opt:float", _request_energy_usage="bool", _total_energy_usage="opt:float",
       _current_energy_usage="opt:float", _real_time_power_usage="opt:float", _use_binary_energy="bool",
       _supported_properties="set:enum:" + CMD + "PropertyId", _updated_properties="set:enum:" + CMD + "PropertyId",
       _horizontal_swing_angle="enum:" + AC + ".SwingAngle", _vertical_swing_angle="enum:" + AC + ".SwingAngle",
       _self_clean_active="bool", _rate_select="enum:" + AC + ".RateSelect", _supported_rate_selects="list:opaque",
       _breeze_mode="enum:" + AC + ".BreezeMode", _ieco="bool", _aux_mode="enum:" + AC + ".AuxHeatMode",
       _supported_aux_modes="list:opaque")

STATE_ATTRS = ["self._power_state", "self._target_temperature", "self._operational_mode", "self._fan_speed",
               "self._swing_mode", "self._eco", "self._turbo", "self._freeze_protection", "self._sleep",
               "self._indoor_temperature", "self._outdoor_temperature", "self._display_on", "self._fahrenheit_unit",
               "self._filter_alert", "self._follow_me", "self._purifier", "self._target_humidity", "self._aux_mode"]
PROP_ATTRS = ["self._horizontal_swing_angle", "self._vertical_swing_angle", "self._self_clean_active",
              "self._rate_select", "self._breeze_mode", "self._ieco"]
ENERGY_ATTRS = ["self._total_energy_usage", "self._current_energy_usage", "self._real_time_power_usage"]
HUM_ATTRS = ["self._indoor_humidity"]

RESPONSE_ALTS = ("obj:" + CMD + "StateResponse|obj:" + CMD + "CapabilitiesResponse|obj:" + CMD + "PropertiesResponse|obj:"
                 + CMD + "EnergyUsageResponse|obj:" + CMD + "HumidityResponse|obj:" + CMD + "Response")
ANY_RESPONSE = "union:" + RESPONSE_ALTS


def enum_or(cls, v, default):
    """the member of cls with value v, else the default member"""
    return cls(v) if v in cls.list() else default


def prop(res, pid):
    return res._properties.get(pid, None)


def aux_mode_of(res):
    M = AirConditioner.AuxHeatMode
    return M.AUX_ONLY if res.independent_aux_heat else (M.AUX_HEAT if res.aux_heat else M.OFF)


# ---- C11 / C16 / C14: _update_state ---------------------------------------------------------------------------
contract(AC + "._update_state",
         params={"self": "obj:" + AC, "res": ANY_RESPONSE},
         modifies=STATE_ATTRS + PROP_ATTRS + ENERGY_ATTRS + HUM_ATTRS,
         raises={},
         ensures={
             "typed_attribute_invariant_preserved": "conforms(self)",
             "state.power": "implies(isinstance(res, StateResponse), self._power_state == res.power_on)",
             "state.temperature": "implies(isinstance(res, StateResponse), self._target_temperature == res.target_temperature)",
             "state.mode": "implies(isinstance(res, StateResponse) and res.operational_mode is not None, self._operational_mode == enum_or(AirConditioner.OperationalMode, res.operational_mode, AirConditioner.OperationalMode.FAN_ONLY))",
             "state.fan_custom": "implies(isinstance(res, StateResponse) and old(self._supports_custom_fan_speed), self._fan_speed == res.fan_speed)",
             "state.fan_enum": "implies(isinstance(res, StateResponse) and not old(self._supports_custom_fan_speed) and res.fan_speed is not None, self._fan_speed == enum_or(AirConditioner.FanSpeed, res.fan_speed, AirConditioner.FanSpeed.AUTO))",
             "state.swing": "implies(isinstance(res, StateResponse) and res.swing_mode is not None, self._swing_mode == enum_or(AirConditioner.SwingMode, res.swing_mode, AirConditioner.SwingMode.OFF))",
             "state.flags": "implies(isinstance(res, StateResponse), self._eco == res.eco and self._turbo == res.turbo and self._freeze_protection == res.freeze_protection and self._sleep == res.sleep and self._fahrenheit_unit == res.fahrenheit and self._follow_me == res.follow_me and self._purifier == res.purifier and self._display_on == res.display_on and self._filter_alert == res.filter_alert)",
             "state.sensors": "implies(isinstance(res, StateResponse), self._indoor_temperature == res.indoor_temperature and self._outdoor_temperature == res.outdoor_temperature and self._target_humidity == res.target_humidity)",
             "state.aux": "implies(isinstance(res, StateResponse), self._aux_mode == aux_mode_of(res))",
             "state.leaves_properties": "implies(isinstance(res, StateResponse), self._breeze_mode == old(self._breeze_mode) and self._ieco == old(self._ieco) and self._rate_select == old(self._rate_select) and self._indoor_humidity == old(self._indoor_humidity))",
             # C16: property responses are read back into the attributes (absent properties leave them alone)
             "props.ieco": "implies(isinstance(res, PropertiesResponse), self._ieco == (prop(res, PropertyId.IECO) if prop(res, PropertyId.IECO) is not None else old(self._ieco)))",
             "props.self_clean": "implies(isinstance(res, PropertiesResponse), self._self_clean_active == (prop(res, PropertyId.SELF_CLEAN) if prop(res, PropertyId.SELF_CLEAN) is not None else old(self._self_clean_active)))",
             "props.angles": "implies(isinstance(res, PropertiesResponse), self._horizontal_swing_angle == (enum_or(AirConditioner.SwingAngle, prop(res, PropertyId.SWING_LR_ANGLE), AirConditioner.SwingAngle.OFF) if prop(res, PropertyId.SWING_LR_ANGLE) is not None else old(self._horizontal_swing_angle)) and self._vertical_swing_angle == (enum_or(AirConditioner.SwingAngle, prop(res, PropertyId.SWING_UD_ANGLE), AirConditioner.SwingAngle.OFF) if prop(res, PropertyId.SWING_UD_ANGLE) is not None else old(self._vertical_swing_angle)))",
             "props.rate_select": "implies(isinstance(res, PropertiesResponse), self._rate_select == (enum_or(AirConditioner.RateSelect, prop(res, PropertyId.RATE_SELECT), AirConditioner.RateSelect.OFF) if prop(res, PropertyId.RATE_SELECT) is not None else old(self._rate_select)))",
             "props.breeze_control": "implies(isinstance(res, PropertiesResponse) and prop(res, PropertyId.BREEZE_CONTROL) is not None, self._breeze_mode == enum_or(AirConditioner.BreezeMode, prop(res, PropertyId.BREEZE_CONTROL), AirConditioner.BreezeMode.OFF))",
             "props.breeze_legacy_on": "implies(isinstance(res, PropertiesResponse) and prop(res, PropertyId.BREEZE_CONTROL) is None, implies(prop(res, PropertyId.BREEZELESS) == True, self._breeze_mode == AirConditioner.BreezeMode.BREEZELESS) and implies(prop(res, PropertyId.BREEZE_AWAY) == True and prop(res, PropertyId.BREEZELESS) != True, self._breeze_mode == AirConditioner.BreezeMode.BREEZE_AWAY))",
             "props.breeze_legacy_off": "implies(isinstance(res, PropertiesResponse) and prop(res, PropertyId.BREEZE_CONTROL) is None and prop(res, PropertyId.BREEZE_AWAY) == False and prop(res, PropertyId.BREEZELESS) == False and old(self._breeze_mode) != AirConditioner.BreezeMode.BREEZE_MILD, self._breeze_mode == AirConditioner.BreezeMode.OFF)",
             "other.leaves_state": "implies(not isinstance(res, StateResponse), self._power_state == old(self._power_state) and self._target_temperature == old(self._target_temperature) and self._operational_mode == old(self._operational_mode) and self._fan_speed == old(self._fan_speed) and self._swing_mode == old(self._swing_mode) and self._eco == old(self._eco) and self._turbo == old(self._turbo) and self._aux_mode == old(self._aux_mode) and self._target_humidity == old(self._target_humidity) and self._display_on == old(self._display_on))",
             "humidity": "implies(isinstance(res, HumidityResponse), self._indoor_humidity == res.humidity)",
             "unknown_ignored": "implies(type(res) is Response or isinstance(res, CapabilitiesResponse), self._indoor_humidity == old(self._indoor_humidity) and self._ieco == old(self._ieco) and self._breeze_mode == old(self._breeze_mode) and self._total_energy_usage == old(self._total_energy_usage))",
         },
         notes="contract used at call sites; the same clauses are verified per response class by the variants below (faster), and as a whole in the thorough tier")

contract(AC + "._update_state#state",
         params={"self": "obj:" + AC, "res": "obj:" + CMD + "StateResponse"},
         modifies=STATE_ATTRS + PROP_ATTRS + ENERGY_ATTRS + HUM_ATTRS,
         raises={},
         ensures={
             "state.power": "implies(isinstance(res, StateResponse), self._power_state == res.power_on)",
             "state.temperature": "implies(isinstance(res, StateResponse), self._target_temperature == res.target_temperature)",
             "state.mode": "implies(isinstance(res, StateResponse) and res.operational_mode is not None, self._operational_mode == enum_or(AirConditioner.OperationalMode, res.operational_mode, AirConditioner.OperationalMode.FAN_ONLY))",
             "state.fan_custom": "implies(isinstance(res, StateResponse) and old(self._supports_custom_fan_speed), self._fan_speed == res.fan_speed)",
             "state.fan_enum": "implies(isinstance(res, StateResponse) and not old(self._supports_custom_fan_speed) and res.fan_speed is not None, self._fan_speed == enum_or(AirConditioner.FanSpeed, res.fan_speed, AirConditioner.FanSpeed.AUTO))",
             "state.swing": "implies(isinstance(res, StateResponse) and res.swing_mode is not None, self._swing_mode == enum_or(AirConditioner.SwingMode, res.swing_mode, AirConditioner.SwingMode.OFF))",
             "state.flags": "implies(isinstance(res, StateResponse), self._eco == res.eco and self._turbo == res.turbo and self._freeze_protection == res.freeze_protection and self._sleep == res.sleep and self._fahrenheit_unit == res.fahrenheit and self._follow_me == res.follow_me and self._purifier == res.purifier and self._display_on == res.display_on and self._filter_alert == res.filter_alert)",
             "state.sensors": "implies(isinstance(res, StateResponse), self._indoor_temperature == res.indoor_temperature and self._outdoor_temperature == res.outdoor_temperature and self._target_humidity == res.target_humidity)",
             "state.aux": "implies(isinstance(res, StateResponse), self._aux_mode == aux_mode_of(res))",
             "state.leaves_properties": "implies(isinstance(res, StateResponse), self._breeze_mode == old(self._breeze_mode) and self._ieco == old(self._ieco) and self._rate_select == old(self._rate_select) and self._indoor_humidity == old(self._indoor_humidity))",
         })

contract(AC + "._update_state#props",
         params={"self": "obj:" + AC, "res": "obj:" + CMD + "PropertiesResponse"},
         modifies=STATE_ATTRS + PROP_ATTRS + ENERGY_ATTRS + HUM_ATTRS,
         raises={},
         ensures={
             # C16: property responses are read back into the attributes (absent properties leave them alone)
             "props.ieco": "implies(isinstance(res, PropertiesResponse), self._ieco == (prop(res, PropertyId.IECO) if prop(res, PropertyId.IECO) is not None else old(self._ieco)))",
             "props.self_clean": "implies(isinstance(res, PropertiesResponse), self._self_clean_active == (prop(res, PropertyId.SELF_CLEAN) if prop(res, PropertyId.SELF_CLEAN) is not None else old(self._self_clean_active)))",
             "props.angles": "implies(isinstance(res, PropertiesResponse), self._horizontal_swing_angle == (enum_or(AirConditioner.SwingAngle, prop(res, PropertyId.SWING_LR_ANGLE), AirConditioner.SwingAngle.OFF) if prop(res, PropertyId.SWING_LR_ANGLE) is not None else old(self._horizontal_swing_angle)) and self._vertical_swing_angle == (enum_or(AirConditioner.SwingAngle, prop(res, PropertyId.SWING_UD_ANGLE), AirConditioner.SwingAngle.OFF) if prop(res, PropertyId.SWING_UD_ANGLE) is not None else old(self._vertical_swing_angle)))",
             "props.rate_select": "implies(isinstance(res, PropertiesResponse), self._rate_select == (enum_or(AirConditioner.RateSelect, prop(res, PropertyId.RATE_SELECT), AirConditioner.RateSelect.OFF) if prop(res, PropertyId.RATE_SELECT) is not None else old(self._rate_select)))",
             "props.breeze_control": "implies(isinstance(res, PropertiesResponse) and prop(res, PropertyId.BREEZE_CONTROL) is not None, self._breeze_mode == enum_or(AirConditioner.BreezeMode, prop(res, PropertyId.BREEZE_CONTROL), AirConditioner.BreezeMode.OFF))",
             "props.breeze_legacy_on": "implies(isinstance(res, PropertiesResponse) and prop(res, PropertyId.BREEZE_CONTROL) is None, implies(prop(res, PropertyId.BREEZELESS) == True, self._breeze_mode == AirConditioner.BreezeMode.BREEZELESS) and implies(prop(res, PropertyId.BREEZE_AWAY) == True and prop(res, PropertyId.BREEZELESS) != True, self._breeze_mode == AirConditioner.BreezeMode.BREEZE_AWAY))",
             "props.breeze_legacy_off": "implies(isinstance(res, PropertiesResponse) and prop(res, PropertyId.BREEZE_CONTROL) is None and prop(res, PropertyId.BREEZE_AWAY) == False and prop(res, PropertyId.BREEZELESS) == False and old(self._breeze_mode) != AirConditioner.BreezeMode.BREEZE_MILD, self._breeze_mode == AirConditioner.BreezeMode.OFF)",
         })

contract(AC + "._update_state#other",
         params={"self": "obj:" + AC, "res": "union:obj:" + CMD + "CapabilitiesResponse|obj:" + CMD + "EnergyUsageResponse|obj:" + CMD + "HumidityResponse|obj:" + CMD + "Response"},
         modifies=STATE_ATTRS + PROP_ATTRS + ENERGY_ATTRS + HUM_ATTRS,
         raises={},
         ensures={
             "other.leaves_state": "implies(not isinstance(res, StateResponse), self._power_state == old(self._power_state) and self._target_temperature == old(self._target_temperature) and self._operational_mode == old(self._operational_mode) and self._fan_speed == old(self._fan_speed) and self._swing_mode == old(self._swing_mode) and self._eco == old(self._eco) and self._turbo == old(self._turbo) and self._aux_mode == old(self._aux_mode) and self._target_humidity == old(self._target_humidity) and self._display_on == old(self._display_on))",
             "humidity": "implies(isinstance(res, HumidityResponse), self._indoor_humidity == res.humidity)",
             "unknown_ignored": "implies(type(res) is Response or isinstance(res, CapabilitiesResponse), self._indoor_humidity == old(self._indoor_humidity) and self._ieco == old(self._ieco) and self._breeze_mode == old(self._breeze_mode) and self._total_energy_usage == old(self._total_energy_usage))",
         })

# ---- exchanges ---------------------------------------------------------------------------------------------------
G = {CMD + "Command._message_id": "int"}

contract(DEV + "._send_command",
         verified_by=["msmart.base_device.Device._send_command#transport"],
         assumed="device-layer view of Device._send_command (the LAN object is abstracted away); the body is verified against the contract Device._send_command#transport, whose clauses imply this one except for cancellation and the frame of self._lan",
         params={"self": "obj:" + AC, "command": "obj:" + CMD + "Command"}, globals=G,
         rtype="list:bytes",
         assigns={"Command._message_id": "old(Command._message_id) + 1"},
         emits={"sent": "command"},
         raises={},
         notes="the command is serialised exactly once per exchange (#transport.serialised_exactly_once), and every tobytes contract advances the message id by one; used at call sites only here; its body is verified against this contract in contracts/lan.py (C08/C09)")

contract(AC + "._send_command_get_responses",
         params={"self": "obj:" + AC, "command": "obj:" + CMD + "Command"}, globals=G,
         rtype="list:" + ANY_RESPONSE,
         assigns={"self._supported": "len(result) > 0", "Command._message_id": "old(Command._message_id) + 1"},
         emits={"sent": "command", "got_list": "result"},
         raises={},
         ensures={"one_exchange": "len(events('sent')) == 1 and same_object(events('sent')[0], command)",
                  "every_frame_is_examined": "final('_i') == len(final('responses'))"},
         local_roles={"responses": "assigned_from:_send_command(", "valid_responses": "returned", "data": "loop0.target"},
         loops={"0": {"match": "responses", "havoc": {"valid_responses": "list:" + ANY_RESPONSE},
                      "invariant": ["len(valid_responses) <= _i"],
                      "step_ensures": {"kept_iff_decodable": "len(valid_responses) == pre(len(valid_responses)) + (1 if accepts(pre(data)) else 0)"}}})

contract(AC + "._send_command_get_response_with_id",
         params={"self": "obj:" + AC, "command": "obj:" + CMD + "Command", "response_id": "int"}, globals=G,
         rtype="union:none|" + RESPONSE_ALTS,
         modifies=["Command._message_id", "self._supported"],
         emits={"sent": "command", "got": "result"},
         raises={},
         ensures={"matching_id": "implies(result is not None, result._id == response_id)",
                  "one_exchange": "len(events('sent')) == 1 and same_object(events('sent')[0], command)"},
         loops={"0": {"match": "_send_command_get_responses", "invariant": []}})

ALL_UPDATED = STATE_ATTRS + PROP_ATTRS + ENERGY_ATTRS + HUM_ATTRS

# ---- refresh ------------------------------------------------------------------------------------------------------
contract(AC + ".refresh",
         params={"self": "obj:" + AC}, globals=G,
         modifies=ALL_UPDATED + ["self._online", "self._supported", "Command._message_id"],
         raises={},
         post_let={"S": "events('sent')"},
         emits={"sent": "GetStateCommand()"},
         ensures={"state_always_queried": "len(S) >= 1 and isinstance(S[0], GetStateCommand)",
                  "queries_only": "len(S) <= 4",
                  # C01/C16: a refresh works on the complete response list of every exchange (not on the first frame that matches an id:
                  # frames that were already queued - late or unsolicited - come first in that list and must not hide the fresh answer)
                  "whole_response_list_of_every_exchange_is_taken": "len(events('got_list')) == len(S)"},
         loops={"0": {"match": "responses", "modifies": ALL_UPDATED}})

contract(AC + ".refresh#one_state_response",
         params={"self": "obj:" + AC}, globals=G,
         scenario={AC + "._send_command_get_responses": "len(result) == (1 if isinstance(command, GetStateCommand) else 0) and implies(len(result) == 1, isinstance(result[0], StateResponse))"},
         modifies=ALL_UPDATED + ["self._online", "self._supported", "Command._message_id"],
         raises={},
         post_let={"r": "events('got_list')[0][0]"},
         ensures={"online": "self._online == True",
                  "c01.refresh_reports_the_device_state": "self._power_state == r.power_on and self._target_temperature == r.target_temperature and self._eco == r.eco and self._turbo == r.turbo and self._sleep == r.sleep and self._fahrenheit_unit == r.fahrenheit and self._follow_me == r.follow_me and self._purifier == r.purifier and self._display_on == r.display_on and self._target_humidity == r.target_humidity and self._freeze_protection == r.freeze_protection and self._indoor_temperature == r.indoor_temperature and self._outdoor_temperature == r.outdoor_temperature and self._aux_mode == aux_mode_of(r)",
                  "c01.from_any_prior_state": "True"},
         notes="C01 (up): whatever the client's attributes were, after a refresh that receives the device's state response they equal the response's fields; "
               "construct ties those fields to the decoded frame body, LAN.send/_read to the decoded packets")

contract(AC + ".refresh#no_valid_response",
         params={"self": "obj:" + AC}, globals=G,
         scenario={AC + "._send_command_get_responses": "len(result) == 0"},
         modifies=["self._online", "self._supported", "Command._message_id"],
         raises={},
         ensures={"offline": "self._online == False", "unsupported": "self._supported == False"},
         notes="C13: a refresh that receives only rejected frames reports offline/unsupported; the frame condition "
               "(modifies) proves that every other attribute stays exactly as it was")

# ---- C10 call site / C16: apply -------------------------------------------------------------------------------------
def or_default(v, d):
    return v if v is not None else d


REQUESTED_VALUES = "implies(PropertyId.BREEZE_CONTROL in P, P[PropertyId.BREEZE_CONTROL] == old(self._breeze_mode)) and implies(PropertyId.BREEZE_AWAY in P, P[PropertyId.BREEZE_AWAY] == (old(self._breeze_mode) == AirConditioner.BreezeMode.BREEZE_AWAY)) and implies(PropertyId.BREEZELESS in P, P[PropertyId.BREEZELESS] == (old(self._breeze_mode) == AirConditioner.BreezeMode.BREEZELESS)) and implies(PropertyId.IECO in P, P[PropertyId.IECO] == old(self._ieco)) and implies(PropertyId.RATE_SELECT in P, P[PropertyId.RATE_SELECT] == old(self._rate_select)) and implies(PropertyId.SWING_LR_ANGLE in P, P[PropertyId.SWING_LR_ANGLE] == old(self._horizontal_swing_angle)) and implies(PropertyId.SWING_UD_ANGLE in P, P[PropertyId.SWING_UD_ANGLE] == old(self._vertical_swing_angle))"
REQUESTED_VALUES_SENT = "implies(PropertyId.BREEZE_CONTROL in S[1]._properties, S[1]._properties[PropertyId.BREEZE_CONTROL] == old(self._breeze_mode)) and implies(PropertyId.BREEZE_AWAY in S[1]._properties, S[1]._properties[PropertyId.BREEZE_AWAY] == (old(self._breeze_mode) == AirConditioner.BreezeMode.BREEZE_AWAY)) and implies(PropertyId.BREEZELESS in S[1]._properties, S[1]._properties[PropertyId.BREEZELESS] == (old(self._breeze_mode) == AirConditioner.BreezeMode.BREEZELESS)) and implies(PropertyId.IECO in S[1]._properties, S[1]._properties[PropertyId.IECO] == old(self._ieco)) and implies(PropertyId.RATE_SELECT in S[1]._properties, S[1]._properties[PropertyId.RATE_SELECT] == old(self._rate_select)) and implies(PropertyId.SWING_LR_ANGLE in S[1]._properties, S[1]._properties[PropertyId.SWING_LR_ANGLE] == old(self._horizontal_swing_angle)) and implies(PropertyId.SWING_UD_ANGLE in S[1]._properties, S[1]._properties[PropertyId.SWING_UD_ANGLE] == old(self._vertical_swing_angle))"

contract(AC + ".apply",
         params={"self": "obj:" + AC}, globals=G,
         modifies=ALL_UPDATED + ["self._supported", "self._updated_properties", "Command._message_id"],
         raises={},
         post_let={"S": "events('sent')", "c": "events('sent')[0]"},
         ensures={
             "control_first": "len(S) >= 1 and isinstance(c, SetStateCommand)",
             "c10.beep": "c.beep_on == old(self._beep_on)",
             "c10.power": "c.power_on == or_default(old(self._power_state), False)",
             "c10.temperature": "c.target_temperature == or_default(old(self._target_temperature), 25)",
             "c10.mode": "c.operational_mode == old(self._operational_mode)",
             "c10.fan": "c.fan_speed == old(self._fan_speed)",
             "c10.swing": "c.swing_mode == old(self._swing_mode)",
             "c10.eco": "c.eco == or_default(old(self._eco), False)",
             "c10.turbo": "c.turbo == or_default(old(self._turbo), False)",
             "c10.freeze": "c.freeze_protection == or_default(old(self._freeze_protection), False)",
             "c10.sleep": "c.sleep == or_default(old(self._sleep), False)",
             "c10.fahrenheit": "c.fahrenheit == or_default(old(self._fahrenheit_unit), False)",
             "c10.follow_me": "c.follow_me == or_default(old(self._follow_me), False)",
             "c10.purifier": "c.purifier == or_default(old(self._purifier), False)",
             "c10.humidity": "c.target_humidity == or_default(old(self._target_humidity), 40)",
             "c10.aux": "c.aux_heat == (old(self._aux_mode) == AirConditioner.AuxHeatMode.AUX_HEAT)",
             "c10.aux_only": "c.independent_aux_heat == (old(self._aux_mode) == AirConditioner.AuxHeatMode.AUX_ONLY)",
             "c10.aux_force": "c.force_aux_heat == False",
             "c10.frame_inv": "c._device_type == 0xAC and c._protocol_version == 0 and c._frame_type == 0x02",
             # C16: property write exactly when something changed, exactly once, then the change set is empty
             "c16.no_write_when_unchanged": "implies(len(old(self._updated_properties)) == 0, len(S) == 1)",
             "c16.one_write_when_changed": "implies(len(old(self._updated_properties)) > 0, len(S) == 2 and isinstance(S[1], SetPropertiesCommand))",
             "c16.changes_cleared": "implies(len(old(self._updated_properties)) > 0, len(self._updated_properties) == 0)",
             "c16.changes_kept_when_none": "implies(len(old(self._updated_properties)) == 0, self._updated_properties == old(self._updated_properties))",
             # C16/C01: what is written is what the user set before apply() - whatever the device sends back during the state exchange
             "c16.values_are_the_requested_settings": "implies(len(old(self._updated_properties)) > 0, " + REQUESTED_VALUES_SENT + ")",
             "c16.exactly_the_changed_ids": "implies(len(old(self._updated_properties)) > 0, all((pid in S[1]._properties) == (pid in old(self._updated_properties)) for pid in [PropertyId.BREEZE_AWAY, PropertyId.BREEZE_CONTROL, PropertyId.BREEZELESS, PropertyId.IECO, PropertyId.RATE_SELECT, PropertyId.SWING_LR_ANGLE, PropertyId.SWING_UD_ANGLE]))",
         },
         loops={"0": {"match": "_send_command_get_responses", "modifies": ALL_UPDATED}})

def sent_props(cmd):
    return cmd._properties


def has_prop(cmd, pid):
    return pid in cmd._properties


contract(AC + ".apply#quiet_device",
         params={"self": "obj:" + AC}, globals=G,
         requires=["len(self._updated_properties) > 0"],
         calls_inline=[AC + "._apply_properties"],
         scenario={AC + "._send_command_get_responses": "len(result) == 0"},
         modifies=["self._supported", "self._updated_properties", "Command._message_id"],
         raises={},
         post_let={"S": "events('sent')", "P": "events('sent')[1]._properties"},
         ensures={
             "one_property_write": "len(S) == 2 and isinstance(S[1], SetPropertiesCommand)",
             "exactly_the_changed_ids_plus_buzzer": "all((pid in P) == (pid in old(self._updated_properties)) for pid in [PropertyId.BREEZE_AWAY, PropertyId.BREEZE_CONTROL, PropertyId.BREEZELESS, PropertyId.IECO, PropertyId.RATE_SELECT, PropertyId.SWING_LR_ANGLE, PropertyId.SWING_UD_ANGLE]) and PropertyId.BUZZER in P and PropertyId.SELF_CLEAN not in P",
             "values_are_the_current_settings": "implies(PropertyId.BREEZE_CONTROL in P, P[PropertyId.BREEZE_CONTROL] == old(self._breeze_mode)) and implies(PropertyId.BREEZE_AWAY in P, P[PropertyId.BREEZE_AWAY] == (old(self._breeze_mode) == AirConditioner.BreezeMode.BREEZE_AWAY)) and implies(PropertyId.BREEZELESS in P, P[PropertyId.BREEZELESS] == (old(self._breeze_mode) == AirConditioner.BreezeMode.BREEZELESS)) and implies(PropertyId.IECO in P, P[PropertyId.IECO] == old(self._ieco)) and implies(PropertyId.RATE_SELECT in P, P[PropertyId.RATE_SELECT] == old(self._rate_select)) and implies(PropertyId.SWING_LR_ANGLE in P, P[PropertyId.SWING_LR_ANGLE] == old(self._horizontal_swing_angle)) and implies(PropertyId.SWING_UD_ANGLE in P, P[PropertyId.SWING_UD_ANGLE] == old(self._vertical_swing_angle)) and P[PropertyId.BUZZER] == old(self._beep_on)",
             "changes_cleared": "len(self._updated_properties) == 0"},
         notes="C16: with a device that sends nothing back during the exchange, the property write carries exactly the changed ids (plus the buzzer) with the current settings")

contract(AC + "._apply_properties",
         params={"self": "obj:" + AC, "properties": "symdict:PROP_KEYS:enum:" + CMD + "PropertyId"}, globals=G,
         modifies=ALL_UPDATED + ["self._supported", "Command._message_id"],
         raises={},
         post_let={"S": "events('sent')"},
         ensures={"one_write": "len(S) == 1 and isinstance(S[0], SetPropertiesCommand)",
                  "buzzer_added": "S[0]._properties[PropertyId.BUZZER] == old(self._beep_on)",
                  "requested_props_sent": "same_object(S[0]._properties, properties) or S[0]._properties == properties"},
         emits={"sent": "SetPropertiesCommand(properties)"},
         loops={"1": {"match": "_send_command_get_responses", "modifies": ALL_UPDATED}})

contract(AC + ".start_self_clean",
         params={"self": "obj:" + AC}, globals=G,
         modifies=ALL_UPDATED + ["self._supported", "Command._message_id"],
         raises={},
         post_let={"S": "events('sent')"},
         ensures={"one_write": "len(S) == 1 and isinstance(S[0], SetPropertiesCommand)",
                  "self_clean": "S[0]._properties[PropertyId.SELF_CLEAN] == True"})

contract(AC + ".toggle_display",
         params={"self": "obj:" + AC}, globals=G,
         modifies=ALL_UPDATED + ["self._online", "self._supported", "Command._message_id"],
         raises={},
         calls_inline=[],
         post_let={"S": "events('sent')"},
         ensures={"toggle_first": "len(S) >= 2 and isinstance(S[0], ToggleDisplayCommand) and S[0].beep_on == old(self._beep_on)",
                  "then_refresh": "isinstance(S[1], GetStateCommand)"})

# ---- capabilities -------------------------------------------------------------------------------------------------
CAP_ATTRS = ["self._supported_op_modes", "self._supported_swing_modes", "self._supported_fan_speeds",
             "self._supports_custom_fan_speed", "self._supports_eco", "self._supports_turbo", "self._supports_freeze_protection",
             "self._supports_display_control", "self._supports_filter_reminder", "self._supports_purifier",
             "self._supported_aux_modes", "self._min_target_temperature", "self._max_target_temperature",
             "self._request_energy_usage", "self._supports_humidity", "self._supports_target_humidity",
             "self._supported_properties", "self._supported_rate_selects"]


def cap(res, key):
    return res._capabilities.get(key, False)


contract(AC + "._update_capabilities",
         params={"self": "obj:" + AC, "res": "obj:" + CMD + "CapabilitiesResponse"},
         modifies=CAP_ATTRS,
         emits={"caps_applied": "dict(res._capabilities)"},
         raises={},
         ensures={
             "typed_attribute_invariant_preserved": "conforms(self)",
             # C16: the property ids the device advertised (breeze control supersedes the legacy ids)
             "props.angles": "(PropertyId.SWING_UD_ANGLE in self._supported_properties) == cap(res, 'swing_vertical_angle') and (PropertyId.SWING_LR_ANGLE in self._supported_properties) == cap(res, 'swing_horizontal_angle')",
             "props.self_clean": "(PropertyId.SELF_CLEAN in self._supported_properties) == cap(res, 'self_clean')",
             "props.rate_select": "(PropertyId.RATE_SELECT in self._supported_properties) == (cap(res, 'rate_select_5_level') or cap(res, 'rate_select_2_level'))",
             "props.breeze_control": "(PropertyId.BREEZE_CONTROL in self._supported_properties) == cap(res, 'breeze_control')",
             "props.breeze_legacy": "(PropertyId.BREEZE_AWAY in self._supported_properties) == (cap(res, 'breeze_away') and not cap(res, 'breeze_control')) and (PropertyId.BREEZELESS in self._supported_properties) == (cap(res, 'breezeless') and not cap(res, 'breeze_control'))",
             "props.ieco": "(PropertyId.IECO in self._supported_properties) == cap(res, 'ieco')",
             "props.nothing_else": "PropertyId.BUZZER not in self._supported_properties and PropertyId.ANION not in self._supported_properties and PropertyId.FRESH_AIR not in self._supported_properties and PropertyId.INDOOR_HUMIDITY not in self._supported_properties",
             "energy_only_enabled": "self._request_energy_usage == (old(self._request_energy_usage) or cap(res, 'energy_stats'))",
             "flags": "self._supports_eco == cap(res, 'eco') and self._supports_humidity == (cap(res, 'humidity_auto_set') or cap(res, 'humidity_manual_set')) and self._supports_custom_fan_speed == cap(res, 'fan_custom')",
         })

contract(CMD + "CapabilitiesResponse.merge",
         params={"self": "obj:" + CMD + "CapabilitiesResponse", "other": "obj:" + CMD + "CapabilitiesResponse"},
         modifies=["self._capabilities"],
         raises={},
         ensures={"later_page_wins": "self._capabilities == merged(old(self._capabilities), other._capabilities)"})

contract(AC + ".get_capabilities",
         params={"self": "obj:" + AC}, globals=G,
         modifies=CAP_ATTRS + ["self._supported", "Command._message_id"],
         raises={},
         post_let={"S": "events('sent')", "R": "events('got')", "A": "events('caps_applied')"},
         ensures={"first_page": "len(S) >= 1 and isinstance(S[0], GetCapabilitiesCommand) and S[0]._additional == False",
                  # C15: paging
                  "no_caps_no_update": "implies(not isinstance(R[0], CapabilitiesResponse), len(S) == 1 and len(A) == 0)",
                  "second_page_requested_iff_flag": "implies(isinstance(R[0], CapabilitiesResponse), (len(S) == 2) == R[0]._additional_capabilities)",
                  "single_page_applied": "implies(isinstance(R[0], CapabilitiesResponse) and len(S) == 1, len(A) == 1 and A[0] == R[0]._capabilities)",
                  "pages_merged_in_order": "implies(len(S) == 2 and isinstance(R[1], CapabilitiesResponse), len(A) == 1 and A[0] == merged(R[0]._capabilities, R[1]._capabilities))",
                  "first_page_kept_if_second_fails": "implies(len(S) == 2 and not isinstance(R[1], CapabilitiesResponse), len(A) == 1 and A[0] == R[0]._capabilities)",
                  "second_page_is_additional": "implies(len(S) >= 2, isinstance(S[1], GetCapabilitiesCommand) and S[1]._additional == True)",
                  "at_most_two": "len(S) <= 2"})


# ---- C10: what the user sets is what apply() later encodes: every state setter stores exactly the given value and touches nothing else ----
contract(AC + ".beep!setter",
         params={"self": "obj:" + AC, "tone": "bool"},
         assigns={"self._beep_on": "tone"}, raises={})
contract(AC + ".power_state!setter",
         params={"self": "obj:" + AC, "state": "bool"},
         assigns={"self._power_state": "state"}, raises={})
contract(AC + ".fahrenheit!setter",
         params={"self": "obj:" + AC, "enabled": "bool"},
         assigns={"self._fahrenheit_unit": "enabled"}, raises={})
contract(AC + ".target_temperature!setter",
         params={"self": "obj:" + AC, "temperature_celsius": "float"},
         assigns={"self._target_temperature": "temperature_celsius"}, raises={})
contract(AC + ".operational_mode!setter",
         params={"self": "obj:" + AC, "mode": "enum:" + AC + ".OperationalMode"},
         assigns={"self._operational_mode": "mode"}, raises={})
contract(AC + ".swing_mode!setter",
         params={"self": "obj:" + AC, "mode": "enum:" + AC + ".SwingMode"},
         assigns={"self._swing_mode": "mode"}, raises={})
contract(AC + ".eco!setter",
         params={"self": "obj:" + AC, "enabled": "bool"},
         assigns={"self._eco": "enabled"}, raises={})
contract(AC + ".turbo!setter",
         params={"self": "obj:" + AC, "enabled": "bool"},
         assigns={"self._turbo": "enabled"}, raises={})
contract(AC + ".freeze_protection!setter",
         params={"self": "obj:" + AC, "enabled": "bool"},
         assigns={"self._freeze_protection": "enabled"}, raises={})
contract(AC + ".sleep!setter",
         params={"self": "obj:" + AC, "enabled": "bool"},
         assigns={"self._sleep": "enabled"}, raises={})
contract(AC + ".follow_me!setter",
         params={"self": "obj:" + AC, "enabled": "bool"},
         assigns={"self._follow_me": "enabled"}, raises={})
contract(AC + ".purifier!setter",
         params={"self": "obj:" + AC, "enabled": "bool"},
         assigns={"self._purifier": "enabled"}, raises={})
contract(AC + ".target_humidity!setter",
         params={"self": "obj:" + AC, "humidity": "int[0,100]"},
         assigns={"self._target_humidity": "humidity"}, raises={})
contract(AC + ".aux_mode!setter",
         params={"self": "obj:" + AC, "mode": "enum:" + AC + ".AuxHeatMode"},
         assigns={"self._aux_mode": "mode"}, raises={})
contract(AC + ".fan_speed!setter",
         params={"self": "obj:" + AC, "speed": "union:enum:" + AC + ".FanSpeed|int[0,255]|float"},
         assigns={"self._fan_speed": "int(speed) if isinstance(speed, float) else speed"}, raises={},
         notes="custom speeds are stored as given (1..100 percentages and the raw values 101, 102 alike); floats are truncated")


# ---- constructors establish the class invariants that every other contract assumes for `obj:` parameters --------------------------
from pyvc.dsl import conforms, has_own

contract(AC + ".__init__",
         params={"self": "new:" + AC, "ip": "str", "device_id": "int[0,281474976710655]", "port": "int[0,65535]",
                 "sn": "opt:str", "name": "opt:str", "version": "opt:int[1,3]"},
         bind_kwargs=["sn", "name", "version"], defaults={"sn": "None", "name": "None", "version": "None"},
         modifies=["self.*"], raises={},
         ensures={"declared_attribute_types_hold": "conforms(self) and conforms(self._lan)",
                  "identity": "self._ip == ip and self._port == port and self._id == device_id and self._type == 0xAC",
                  "advertised_details_kept": "self._sn == sn and self._name == name and self._version == version",
                  "transport_targets_the_device": "self._lan._ip == ip and self._lan._port == port and self._lan._device_id == device_id",
                  "nothing_pending": "len(self._updated_properties) == 0 and len(self._supported_properties) == 0",
                  # until a capabilities response says otherwise nothing the device reports is discarded or rewritten on read-back
                  "c01.reported_values_kept_until_capabilities_are_known": "self._supports_custom_fan_speed == True and self._supports_humidity == False "
                                                                           "and self._request_energy_usage == False and self._use_binary_energy == False",
                  "not_online_yet": "self._online == False and self._supported == False",
                  "c10.defaults_are_encodable": "self._operational_mode == AirConditioner.OperationalMode.AUTO and self._fan_speed == AirConditioner.FanSpeed.AUTO "
                                                "and self._swing_mode == AirConditioner.SwingMode.OFF and self._target_temperature == 17.0 and self._aux_mode == AirConditioner.AuxHeatMode.OFF"},
         notes="C01/C10/C16: a new device object satisfies the typed-attribute invariant the other contracts assume, has no pending property "
               "writes, and its defaults are values SetStateCommand can encode")
