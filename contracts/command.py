"""Contracts for the command classes of msmart.device.AC.command (C12, C10, C16 encoders).

`ctl_decode` is the vendor's control-body layout (reference/T_0000_AC_00000Q14_2024013001.lua
:3286-3445 and the constants at :211-340): byte 1 bit0 power / bit6 buzzer, byte 2
[mode:3][half:1][T-16:4], byte 3 low 7 bits fan, byte 7 low nibble swing, byte 8 bit5 strong wind /
bit7 follow-me (as in the state body), byte 9 bit7 eco / bit5 purifier / bit3 PTC / bit4 PTC force,
byte 10 bit0 sleep / bit1 turbo / bit2 unit, byte 18 low 5 bits alternate set-point (code + 12),
byte 19 low 7 bits humidity, byte 21 bit7 8-degree heat, byte 22 bit3 independent PTC.
"""
from pyvc.dsl import contract, fields, fold, implies, lemma, old
from contracts.frame import addck, crc8, frame_spec, wf_frame
from msmart.device.AC.command import Command

CMD = "msmart.device.AC.command."


def cmd_frame(ftype, payload, mid):
    body = payload + bytes([mid])
    return frame_spec(0xAC, 0, ftype, body + bytes([crc8(body)]))


def cmd_inv(c, ftype):
    return c._device_type == 0xAC and c._protocol_version == 0 and c._frame_type == ftype


def next_id(m):
    return (m + 1) & 0xFF


def ctl_decode(b):
    alt = b[18] & 0x1F
    whole = (alt + 12) if alt != 0 else ((b[2] & 0x0F) + 16)
    return {
        "cmd": b[0],
        "power": (b[1] & 0x01) != 0,
        "app_control": (b[1] & 0x02) != 0,
        "beep": (b[1] & 0x40) != 0,
        "mode": (b[2] >> 5) & 0x7,
        "temperature": whole + (0.5 if (b[2] & 0x10) else 0.0),
        "fan": b[3] & 0x7F,
        "timers_off": b[4] == 0x7F and b[5] == 0x7F and b[6] == 0,
        "swing": b[7] & 0x0F,
        "turbo_strong": (b[8] & 0x20) != 0,
        "follow_me": (b[8] & 0x80) != 0,
        "eco": (b[9] & 0x80) != 0,
        "purifier": (b[9] & 0x20) != 0,
        "aux": (b[9] & 0x08) != 0,
        "aux_force": (b[9] & 0x10) != 0,
        "sleep": (b[10] & 0x01) != 0,
        "turbo": (b[10] & 0x02) != 0,
        "fahrenheit": (b[10] & 0x04) != 0,
        "humidity": b[19] & 0x7F,
        "freeze": (b[21] & 0x80) != 0,
        "independent_aux": (b[22] & 0x08) != 0,
    }


fields(CMD + "GetCapabilitiesCommand", _additional="bool")
fields(CMD + "GetStateCommand", temperature_type="int")
fields(CMD + "ToggleDisplayCommand", beep_on="bool")
fields(CMD + "SetStateCommand", beep_on="bool", power_on="bool", target_temperature="float", operational_mode="int",
       fan_speed="int", eco="bool", swing_mode="int", turbo="bool", fahrenheit="bool", sleep="bool",
       freeze_protection="bool", follow_me="bool", purifier="bool", target_humidity="int", aux_heat="bool",
       force_aux_heat="bool", independent_aux_heat="bool")

G = {CMD + "Command._message_id": "int"}

contract(CMD + "Command._next_message_id",
         params={"self": "sub:" + CMD + "Command"}, globals=G,
         returns="next_id(old(Command._message_id))",
         assigns={"Command._message_id": "old(Command._message_id) + 1"})

lemma("C12.ids_advance_by_one",
      params={"m": "int"},
      ensures={"consecutive": "(next_id(m + 1) - next_id(m)) % 256 == 1",
               "range": "0 <= next_id(m) <= 255"})

contract(CMD + "Command.tobytes",
         params={"self": "sub:" + CMD + "Command", "data": "bytes"}, globals=G,
         requires=["len(data) <= 243", "self._device_type == 0xAC", "self._protocol_version == 0",
                   "0 <= self._frame_type <= 255"],
         returns="cmd_frame(self._frame_type, data, next_id(old(Command._message_id)))",
         assigns={"Command._message_id": "old(Command._message_id) + 1"},
         ensures={"wf": "wf_frame(result, self._frame_type)",
                  "id": "result[-3] == next_id(old(Command._message_id))",
                  "len": "len(result) == len(data) + 13",
                  "payload": "result[10:-3] == data"})

# ---- the query commands --------------------------------------------------------------------------
for_queries = """
Each command: __init__ establishes the frame invariant, tobytes (given the invariant) returns a
well-formed frame of the documented type whose body starts with the documented request.
"""

contract(CMD + "GetCapabilitiesCommand.__init__",
         params={"self": "obj:" + CMD + "GetCapabilitiesCommand", "additional": "bool"},
         ensures={"inv": "cmd_inv(self, 0x03)", "page": "self._additional == additional"},
         modifies=["self.*"])
contract(CMD + "GetCapabilitiesCommand.tobytes",
         params={"self": "obj:" + CMD + "GetCapabilitiesCommand"}, globals=G,
         requires=["cmd_inv(self, 0x03)"],
         returns="cmd_frame(0x03, bytes([0xB5, 0x01, 0x01, 0x01]) if self._additional else bytes([0xB5, 0x01, 0x00]), next_id(old(Command._message_id)))",
         assigns={"Command._message_id": "old(Command._message_id) + 1"},
         ensures={"wf": "wf_frame(result, 0x03)"})

contract(CMD + "GetStateCommand.__init__",
         params={"self": "obj:" + CMD + "GetStateCommand"},
         ensures={"inv": "cmd_inv(self, 0x03)", "indoor": "self.temperature_type == 2"},
         modifies=["self.*"])
contract(CMD + "GetStateCommand.tobytes",
         params={"self": "obj:" + CMD + "GetStateCommand"}, globals=G,
         requires=["cmd_inv(self, 0x03)", "0 <= self.temperature_type <= 255"],
         rtype="bytes",
         assigns={"Command._message_id": "old(Command._message_id) + 1"},
         ensures={"wf": "wf_frame(result, 0x03)", "len": "len(result) == 34",
                  "query": "result[10] == 0x41 and result[11] == 0x81 and result[17] == self.temperature_type",
                  "id": "result[-3] == next_id(old(Command._message_id))"})

contract(CMD + "GetEnergyUsageCommand.__init__",
         params={"self": "obj:" + CMD + "GetEnergyUsageCommand"},
         ensures={"inv": "cmd_inv(self, 0x03)"}, modifies=["self.*"])
contract(CMD + "GetEnergyUsageCommand.tobytes",
         params={"self": "obj:" + CMD + "GetEnergyUsageCommand"}, globals=G,
         requires=["cmd_inv(self, 0x03)"],
         rtype="bytes",
         assigns={"Command._message_id": "old(Command._message_id) + 1"},
         ensures={"wf": "wf_frame(result, 0x03)", "len": "len(result) == 33",
                  "query": "result[10:14] == bytes([0x41, 0x21, 0x01, 0x44])",
                  "id": "result[-3] == next_id(old(Command._message_id))"})

contract(CMD + "GetHumidityCommand.__init__",
         params={"self": "obj:" + CMD + "GetHumidityCommand"},
         ensures={"inv": "cmd_inv(self, 0x03)"}, modifies=["self.*"])
contract(CMD + "GetHumidityCommand.tobytes",
         params={"self": "obj:" + CMD + "GetHumidityCommand"}, globals=G,
         requires=["cmd_inv(self, 0x03)"],
         rtype="bytes",
         assigns={"Command._message_id": "old(Command._message_id) + 1"},
         ensures={"wf": "wf_frame(result, 0x03)", "len": "len(result) == 33",
                  "query": "result[10:14] == bytes([0x41, 0x21, 0x01, 0x45])",
                  "id": "result[-3] == next_id(old(Command._message_id))"})

contract(CMD + "ToggleDisplayCommand.__init__",
         params={"self": "obj:" + CMD + "ToggleDisplayCommand"},
         ensures={"inv": "cmd_inv(self, 0x03)", "beep": "self.beep_on == True"}, modifies=["self.*"])
contract(CMD + "ToggleDisplayCommand.tobytes",
         params={"self": "obj:" + CMD + "ToggleDisplayCommand"}, globals=G,
         requires=["cmd_inv(self, 0x03)"],
         rtype="bytes",
         assigns={"Command._message_id": "old(Command._message_id) + 1"},
         ensures={"wf": "wf_frame(result, 0x03)", "len": "len(result) == 34",
                  "toggle": "result[10] == 0x41 and result[11] == (0x42 if self.beep_on else 0x02) and result[14] == 0x02 and result[16] == 0x02",
                  "id": "result[-3] == next_id(old(Command._message_id))"})

# ---- C10: the control command ----------------------------------------------------------------------
contract(CMD + "SetStateCommand.__init__",
         params={"self": "obj:" + CMD + "SetStateCommand"},
         ensures={"inv": "cmd_inv(self, 0x02)", "no_forced_aux": "self.force_aux_heat == False"}, modifies=["self.*"])

contract(CMD + "SetStateCommand.tobytes",
         params={"self": "obj:" + CMD + "SetStateCommand"}, globals=G,
         requires=["cmd_inv(self, 0x02)",
                   "13 <= self.target_temperature <= 43.5", "self.target_temperature * 2 == int(self.target_temperature * 2)",
                   "0 <= self.operational_mode <= 7", "0 <= self.fan_speed <= 127", "0 <= self.swing_mode <= 15",
                   "0 <= self.target_humidity <= 100"],
         rtype="bytes",
         assigns={"Command._message_id": "old(Command._message_id) + 1"},
         post_let={"D": "ctl_decode(result[10:-1])"},
         ensures={"wf": "wf_frame(result, 0x02)", "len": "len(result) == 37",
                  "id": "result[-3] == next_id(old(Command._message_id))",
                  "cmd": "D['cmd'] == 0x40 and D['app_control'] and D['timers_off']",
                  "power": "D['power'] == self.power_on",
                  "beep": "D['beep'] == self.beep_on",
                  "mode": "D['mode'] == self.operational_mode",
                  "temperature": "D['temperature'] == self.target_temperature",
                  "fan": "D['fan'] == self.fan_speed",
                  "swing": "D['swing'] == self.swing_mode",
                  "turbo": "D['turbo'] == self.turbo and D['turbo_strong'] == self.turbo",
                  "follow_me": "D['follow_me'] == self.follow_me",
                  "eco": "D['eco'] == self.eco",
                  "purifier": "D['purifier'] == self.purifier",
                  "aux": "D['aux'] == self.aux_heat and D['aux_force'] == self.force_aux_heat",
                  "independent_aux": "D['independent_aux'] == self.independent_aux_heat",
                  "sleep": "D['sleep'] == self.sleep",
                  "fahrenheit": "D['fahrenheit'] == self.fahrenheit",
                  "humidity": "D['humidity'] == self.target_humidity",
                  "freeze": "D['freeze'] == self.freeze_protection"})
