"""C16: property-protocol settings (and the property commands of C12).

Vendor value encoding (reference Lua, property sections of jsonToModel/binToModel, 0xB0 / 0xB1 bodies):
  record = id_lo, id_hi, len, data...          (set / query request)
  record = id_lo, id_hi, result, len, data...  (response)
  breeze away (0x0042): 2 = on, 1 = off;  breeze control (0x0043): 1..4;  breezeless (0x0018), self clean (0x0039),
  buzzer (0x001A): 0/1;  swing angles (0x0009/0x000A), rate select (0x0048): raw value;
  iECO (0x00E3): [frame 0, number 1, switch, 10 x 0].
"""
from pyvc.dsl import contract, events, fields, final, fold, implies, lemma, old, opaque, pre, same_object
from contracts.frame import addck, crc8, frame_spec, wf_frame
from contracts.command import cmd_frame, cmd_inv, next_id
from contracts.response import PROP_KEYS
from msmart.device.AC.command import Command, PropertiesResponse, PropertyId
from msmart.device.AC.device import AirConditioner

CMD = "msmart.device.AC.command."
AC = "msmart.device.AC.device.AirConditioner"
G = {CMD + "Command._message_id": "int"}

SUPPORTED_IDS = [0x0042, 0x0043, 0x0018, 0x001A, 0x00E3, 0x0048, 0x0039, 0x000A, 0x0009]


def vendor_value(pid, value):
    """bytes the vendor layout expects for a property value"""
    if pid == 0x0042:
        return bytes([2 if value else 1])
    if pid == 0x00E3:
        return bytes([0, 1, 1 if value else 0]) + bytes(10)
    return bytes([value & 0xFF])


def vendor_read(pid, data):
    """value carried by the data of a property response record (None = not decoded)"""
    if pid == 0x0018 or pid == 0x0039:
        return data[0] != 0
    if pid == 0x0042:
        return data[0] == 2
    if pid == 0x001A:
        return None
    if pid == 0x00E3:
        return data[1] != 0
    return data[0]


def vendor_report(pid, value):
    """data of the response record a device sends for a stored value (iECO reports number, switch)"""
    if pid == 0x00E3:
        return bytes([1, 1 if value else 0])
    return vendor_value(pid, value)


def prop_record(pid, value):
    v = vendor_value(pid, value)
    return bytes([pid & 0xFF, pid >> 8, len(v)]) + v


contract(CMD + "PropertyId.encode",
         params={"self": "enum:" + CMD + "PropertyId", "value": "union:bool|int[0,255]"},
         bind_varargs=["value"],
         requires=["implies(self == 0x00E3 or self == 0x0042, isinstance(value, bool))"],
         returns="vendor_value(self, value)",
         raises={"builtins.NotImplementedError": {"when": "self not in SUPPORTED_IDS"}})

contract(CMD + "PropertyId.decode",
         params={"self": "enum:" + CMD + "PropertyId", "data": "memoryview"},
         returns="vendor_read(self, data)",
         ensures={"data_present": "implies(self != 0x001A, len(data) >= 1) and implies(self == 0x00E3, len(data) >= 2)",
                  "only_supported_ids_decode": "self in SUPPORTED_IDS"},
         raises={"builtins.NotImplementedError": {"when": "self not in SUPPORTED_IDS"},
                 "builtins.IndexError": {"when": "(self == 0x00E3 and len(data) < 2) or (self != 0x001A and len(data) < 1)"}})

lemma("C16.read_back",
      params={"pid": "enum:" + CMD + "PropertyId", "b": "bool", "n": "int[0,255]"},
      requires=["pid in SUPPORTED_IDS", "pid != 0x001A"],
      ensures={"flags_read_back": "implies(pid in [0x0018, 0x0039, 0x0042, 0x00E3], vendor_read(pid, vendor_report(pid, b)) == b)",
               "values_read_back": "implies(pid in [0x0009, 0x000A, 0x0043, 0x0048], vendor_read(pid, vendor_report(pid, n)) == n)"})

# ---- setters / getters ---------------------------------------------------------------------------------------------
def breeze_id(dev, legacy):
    return PropertyId.BREEZE_CONTROL if PropertyId.BREEZE_CONTROL in dev._supported_properties else legacy


def with_id(s, pid):
    r = set(s)
    r.add(pid)
    return r


B = AC + ".BreezeMode"
for_setters = "each setter changes its backing field only and records the id the device advertised"

contract(AC + ".breeze_away!setter",
         params={"self": "obj:" + AC, "enable": "bool"},
         assigns={"self._breeze_mode": "AirConditioner.BreezeMode.BREEZE_AWAY if enable else AirConditioner.BreezeMode.OFF"},
         modifies=["self._updated_properties"],
         ensures={"recorded": "self._updated_properties == with_id(old(self._updated_properties), breeze_id(self, PropertyId.BREEZE_AWAY))"})
contract(AC + ".breezeless!setter",
         params={"self": "obj:" + AC, "enable": "bool"},
         assigns={"self._breeze_mode": "AirConditioner.BreezeMode.BREEZELESS if enable else AirConditioner.BreezeMode.OFF"},
         modifies=["self._updated_properties"],
         ensures={"recorded": "self._updated_properties == with_id(old(self._updated_properties), breeze_id(self, PropertyId.BREEZELESS))"})
contract(AC + ".breeze_mild!setter",
         params={"self": "obj:" + AC, "enable": "bool"},
         assigns={"self._breeze_mode": "AirConditioner.BreezeMode.BREEZE_MILD if enable else AirConditioner.BreezeMode.OFF"},
         modifies=["self._updated_properties"],
         ensures={"recorded": "self._updated_properties == with_id(old(self._updated_properties), PropertyId.BREEZE_CONTROL)"})
contract(AC + ".horizontal_swing_angle!setter",
         params={"self": "obj:" + AC, "angle": "enum:" + AC + ".SwingAngle"},
         assigns={"self._horizontal_swing_angle": "angle"}, modifies=["self._updated_properties"],
         ensures={"recorded": "self._updated_properties == with_id(old(self._updated_properties), PropertyId.SWING_LR_ANGLE)"})
contract(AC + ".vertical_swing_angle!setter",
         params={"self": "obj:" + AC, "angle": "enum:" + AC + ".SwingAngle"},
         assigns={"self._vertical_swing_angle": "angle"}, modifies=["self._updated_properties"],
         ensures={"recorded": "self._updated_properties == with_id(old(self._updated_properties), PropertyId.SWING_UD_ANGLE)"})
contract(AC + ".ieco!setter",
         params={"self": "obj:" + AC, "enabled": "bool"},
         assigns={"self._ieco": "enabled"}, modifies=["self._updated_properties"],
         ensures={"recorded": "self._updated_properties == with_id(old(self._updated_properties), PropertyId.IECO)"})
contract(AC + ".rate_select!setter",
         params={"self": "obj:" + AC, "rate": "enum:" + AC + ".RateSelect"},
         assigns={"self._rate_select": "rate"}, modifies=["self._updated_properties"],
         ensures={"recorded": "self._updated_properties == with_id(old(self._updated_properties), PropertyId.RATE_SELECT)"})

lemma("C16.at_most_one_breeze_mode",
      params={"dev": "obj:" + AC},
      ensures={"exclusive": "not (dev.breeze_away and dev.breeze_mild) and not (dev.breeze_away and dev.breezeless) and not (dev.breeze_mild and dev.breezeless)"})

# ---- the property commands (C12 well-formedness + C16 per-record vendor encoding) --------------------------------------
fields(CMD + "SetPropertiesCommand", _properties="symdict:PROP_KEYS:enum:" + CMD + "PropertyId")
fields(CMD + "GetPropertiesCommand", _properties="set:enum:" + CMD + "PropertyId")


def le16(x):
    return bytes([x & 0xFF, x >> 8])


contract(CMD + "SetPropertiesCommand.__init__",
         params={"self": "obj:" + CMD + "SetPropertiesCommand", "props": "symdict:PROP_KEYS:enum:" + CMD + "PropertyId"},
         ensures={"inv": "cmd_inv(self, 0x02)"}, assigns={"self._properties": "props"}, modifies=["self.*"])

contract(CMD + "SetPropertiesCommand.tobytes",
         params={"self": "obj:" + CMD + "SetPropertiesCommand"}, globals=G,
         requires=["cmd_inv(self, 0x02)",
                   "PropertyId.INDOOR_HUMIDITY not in self._properties and PropertyId.FRESH_AIR not in self._properties and PropertyId.ANION not in self._properties"],
         rtype="bytes",
         assigns={"Command._message_id": "old(Command._message_id) + 1"},
         ensures={"wf": "wf_frame(result, 0x02)",
                  "id": "result[-3] == next_id(old(Command._message_id))",
                  "body": "result[10:-3] == bytes([0xB0, len(self._properties)]) + final('R')"},
         loops={"0": {"match": "self._properties.items()", "ghost_init": {"R": "bytes()"},
                      "havoc": {"R": "bytes"},
                      "define": {"payload": "bytearray([0xB0, len(self._properties)]) + R"},
                      "invariant": ["len(R) <= 16 * _i"],
                      "ghost_step": {"R": "pre(R) + prop_record(prop, pre(value))"}}})

contract(CMD + "GetPropertiesCommand.__init__",
         params={"self": "obj:" + CMD + "GetPropertiesCommand", "props": "set:enum:" + CMD + "PropertyId"},
         ensures={"inv": "cmd_inv(self, 0x03)"}, assigns={"self._properties": "props"}, modifies=["self.*"])

contract(CMD + "GetPropertiesCommand.tobytes",
         params={"self": "obj:" + CMD + "GetPropertiesCommand"}, globals=G,
         requires=["cmd_inv(self, 0x03)"],
         rtype="bytes",
         assigns={"Command._message_id": "old(Command._message_id) + 1"},
         ensures={"wf": "wf_frame(result, 0x03)",
                  "id": "result[-3] == next_id(old(Command._message_id))",
                  "body": "result[10:-3] == bytes([0xB1, len(self._properties)]) + final('R')"},
         loops={"0": {"match": "self._properties", "ghost_init": {"R": "bytes()"},
                      "havoc": {"R": "bytes"},
                      "define": {"payload": "bytearray([0xB1, len(self._properties)]) + R"},
                      "invariant": ["len(R) == 2 * _i"],
                      "ghost_step": {"R": "pre(R) + le16(prop)"}}})


# ---- C16 (read back): property records are interpreted independently and in order -----------------------------------------------
# Well-formed list (vendor 0xB1/0xB0 layout): payload = id, n, rec_1 .. rec_n [, trailer] with rec_j = id_lo, id_hi, result, size_j,
# data_j and len(data_j) = size_j.  `prop_alone(rec)` is the record interpreted alone (the parser's own result on a one-record
# payload).  Loop rule (induction over the record list): the cursor starts at record j, and the dictionary after record j is the
# dictionary before it updated with the record interpreted alone - whatever kind of record it is (empty, unknown id, known but
# undecodable, failed result, decodable), so no record can hide or distort the ones that follow it.
from contracts.response import PROP_KEYS  # noqa: E402
from contracts.capabilities import merged  # noqa: E402
from msmart.device.AC.command import PropertiesResponse  # noqa: E402


def prop_alone(rec):
    return PropertiesResponse(memoryview(bytes([0xB1, 1]) + bytes(rec)))._properties


contract(CMD + "PropertiesResponse._parse#wf",
         params={"self": "obj:" + CMD + "PropertiesResponse", "payload": "memoryview"},
         requires=["len(payload) >= 2"],
         calls_inline=[CMD + "PropertiesResponse.__init__", CMD + "PropertiesResponse._parse"],
         modifies=["self._properties"],
         raises={"builtins.IndexError": {}},
         local_roles={"props": "assigned_from:payload[2:]"},
         loops={"0": {
             "match": "range(0, ",
             "ghost_init": {"off": "2"},
             "modifies": ["self._properties"],
             "havoc": {"self._properties": "symdict:PROP_KEYS:enum:" + CMD + "PropertyId", "off": "nat"},
             "define": {"props": "payload[off:]"},
             "invariant": ["2 <= off <= len(payload)"],
             "assume": ["off + 4 <= len(payload) and off + 4 + payload[off + 3] <= len(payload)",
                        # vendor layout: an iECO report carries two data bytes (number, switch)
                        "implies(payload[off] == 0xE3 and payload[off + 1] == 0x00 and payload[off + 3] != 0, payload[off + 3] >= 2)"],
             "ghost_step": {"off": "pre(off) + 4 + payload[pre(off) + 3]"},
             "step_ensures": {
                 "record_interpreted_alone_and_merged_in_order":
                     "self._properties == merged(pre(self._properties), prop_alone(payload[pre(off):pre(off) + 4 + payload[pre(off) + 3]]))",
             }}})
