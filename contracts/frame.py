"""Contracts for msmart.crc8, msmart.frame.Frame and msmart.device.AC.command.Command (C12, C13).

Spec functions are written from the property statements (C12: start byte 0xAA, length byte = frame
length - 1, appliance type, frame type, body ending in message id and CRC-8, two's-complement
checksum), not from the code.
"""
from pyvc.dsl import contract, fields, fold, implies, lemma, old, opaque
from msmart.crc8 import _CRC8_854_TABLE


# ---- CRC-8/MAXIM (Dallas/Maxim 1-Wire): polynomial x^8+x^5+x^4+1, reflected (0x8C), init 0 ---------
def crc8_step(c, m):
    x = (c ^ m) & 0xFF
    for _ in range(8):
        x = ((x >> 1) ^ 0x8C) if (x & 1) else (x >> 1)
    return x


opaque("crc8_step", rtype="int[0,255]", lemma="crc8.step_range")


def crc8(s):
    return fold(crc8_step, 0, s, "crc8")


def addck(s):
    """two's-complement checksum: the byte that makes the sum of s plus itself 0 modulo 256"""
    return (-sum(s)) & 0xFF


def frame_spec(dev, pver, ftype, body):
    """A frame as the device parser expects it (C12 statement)."""
    head = bytes([0xAA, len(body) + 10, dev, 0, 0, 0, 0, 0, pver, ftype])
    rest = head[1:] + body
    return head + body + bytes([addck(rest)])


def wf_frame(f, ftype):
    """C12: well-formed AC command frame with a body that ends in message id and CRC-8"""
    return (len(f) >= 13 and f[0] == 0xAA and f[1] == len(f) - 1 and f[2] == 0xAC and f[9] == ftype
            and f[-2] == crc8(f[10:-2]) and sum(f[1:]) % 256 == 0)


fields("msmart.frame.Frame", _device_type="int", _frame_type="int", _protocol_version="int")

contract("msmart.crc8.calculate",
         params={"data": "bytes"},
         returns="crc8(data)",
         reveal=["crc8_step"],
         local_roles={"crc_value": "returned"},
         loops={"0": {"match": "data", "define": {"crc_value": "crc8(data[:_i])"}}})

lemma("crc8.step_range",
      params={"c": "byte", "m": "byte"}, reveal=["crc8_step"],
      ensures={"range": "0 <= crc8_step(c, m) <= 255"})

lemma("crc8.table",
      params={"x": "byte"}, reveal=["crc8_step"],
      let={"T": "_CRC8_854_TABLE"},
      ensures={"table_is_polynomial": "T[x] == crc8_step(0, x)",
               "table_len": "len(T) == 256"})

contract("msmart.frame.Frame.checksum",
         params={"frame": "bytes"},
         returns="addck(frame)")

contract("msmart.frame.Frame.tobytes",
         params={"self": "obj:msmart.frame.Frame", "data": "bytes"},
         requires=["len(data) <= 245",
                   "0 <= self._device_type <= 255", "0 <= self._frame_type <= 255",
                   "0 <= self._protocol_version <= 255"],
         returns="frame_spec(self._device_type, self._protocol_version, self._frame_type, data)",
         emits={"serialised": "self"},
         ensures={"length": "len(result) == len(data) + 11",
                  "checksum": "sum(result[1:]) % 256 == 0"},
         raises={})

contract("msmart.frame.Frame.validate",
         params={"frame": "memoryview"},
         requires=["len(frame) >= 1"],
         ensures={"accepted_only_if_checksum": "frame[-1] == addck(frame[1:-1])"},
         raises={"msmart.frame.InvalidFrameException": {"when": "frame[-1] != addck(frame[1:-1])"}})
