"""C01: end-to-end fidelity as a composition of the contracts of the layers.

down (apply -> wire):  apply.c10.* (attributes -> SetStateCommand fields)  ;  SetStateCommand.tobytes (ctl_decode(body) = fields, wf frame)
                       ;  Device._send_command#transport.c01.* (frame handed to LAN.send unchanged)  ;  LAN.send.c01.* (the packet written wraps
                       exactly that frame and device id; V3: inside an encrypted request under the session key)  ;  lemma C01.spec_decoders_invert
up (wire -> refresh):  data_received (C04: packets delivered exactly once, in order, for every segmentation)  ;  _process_packet#interop / decode#interop
                       (spec-produced packets decode to their payload)  ;  Response.construct.c01.* (fields of the state response = vendor decoding of the
                       frame body)  ;  _update_state (attributes = fields; non-state responses leave them alone; duplicates are idempotent)  ;
                       refresh#one_state_response (attributes after refresh = the response's fields, from any prior client state).
The lemma below is the spec-level part: an independent decoder (the inverse laws of AES / PKCS#7) recovers frame and device id from the packets.
"""
from pyvc.dsl import aes_cbc_dec, aes_ecb_dec, contract, implies, lemma, md5, pkcs7, sha256
from contracts.lan import SIGN_KEY, v2_packet, v3_packet, v3_pad, v2_len

lemma("C01.spec_decoders_invert",
      params={"frame": "bytes", "device_id": "int[0,18446744073709551615]", "ts": "bytes[8]", "key": "bytes[32]", "ctr": "int[0,65535]", "rnd": "bytes"},
      requires=["len(frame) <= 60000", "len(rnd) == v3_pad(v2_len(len(frame)))"],
      let={"p2": "v2_packet(device_id, ts, frame)", "p3": "v3_packet(key, ctr, v2_packet(device_id, ts, frame), rnd, 6)"},
      ensures={"v3_plaintext_carries_counter_and_packet": "aes_cbc_dec(key, p3[6:-32])[:2 + len(p2)] == ctr.to_bytes(2, 'big') + p2",
               "v3_tag_covers_header_and_plaintext": "sha256(p3[:6] + aes_cbc_dec(key, p3[6:-32])) == p3[-32:]",
               "v2_plaintext_is_the_padded_frame": "aes_ecb_dec(md5(SIGN_KEY), p2[40:-16]) == pkcs7(frame)",
               "v2_carries_the_device_id": "p2[20:28] == device_id.to_bytes(8, 'little')",
               "v2_signature": "md5(p2[:-16] + SIGN_KEY) == p2[-16:]",
               "sizes": "len(p2) == v2_len(len(frame)) and int.from_bytes(p3[2:4], 'big') + 8 == len(p3)"})


# ---- known finding (C01): the V2 receive path does not reassemble the TCP stream ------------------------------------------------
from pyvc.dsl import events

contract("msmart.lan._LanProtocol.data_received#v2_segmentation",
         params={"self": "obj:msmart.lan._LanProtocol", "device_id": "int[0,18446744073709551615]", "ts": "bytes[8]", "frame": "bytes", "k": "int[1,70000]"},
         requires=["len(frame) <= 60000", "k < v2_len(len(frame))"],
         let={"data": "v2_packet(device_id, ts, frame)[:k]"},
         bind={"data": "data"},
         modifies=["self._queue"],
         raises={},
         ensures={"partial_packet_is_not_delivered": "len(events('queued')) == 0"},
         notes="a response split across two TCP segments is queued as two items, each of which _Packet.decode rejects (ProtocolError); "
               "two coalesced responses lose the second. Known finding, see DESIGN.md section 5 (F8).")
