"""C15: capability records are interpreted independently and survive paging.

Well-formed list (from the statement): payload = 0xB5, n, rec_1 .. rec_n, flag, msg_id with
rec_j = id_lo, id_hi, size_j, data_j and len(data_j) = size_j (any id, any size 0..255).

`interp_alone(rec)` is the record interpreted alone: the parser's own result on the one-record payload
0xB5, 1, rec, 0, 0 (so independence is stated without a second copy of the capability table).
The loop rule is the induction over the record list:
  cursor:    after j iterations the view starts exactly at record j      (define caps == payload[off:])
  step:      dict' == merged(dict, interp_alone(rec_j))                   (step_ensures)
hence after n iterations the dictionary is the in-order merge of the n records interpreted alone.
"""
from pyvc.dsl import contract, fields, fold, implies, lemma, old, opaque, pre
from contracts.response import CAP_KEYS
from msmart.device.AC.command import CapabilitiesResponse

CMD = "msmart.device.AC.command."


def merged(a, b):
    d = dict(a)
    d.update(b)
    return d


def interp_alone(rec):
    return CapabilitiesResponse(memoryview(bytes([0xB5, 1]) + bytes(rec) + bytes([0, 0])))._capabilities


def flag_alone(rec_then_trailer):
    return CapabilitiesResponse(memoryview(bytes([0xB5, 0]) + bytes(rec_then_trailer)))._additional_capabilities


contract(CMD + "CapabilitiesResponse._parse_capabilities#wf",
         params={"self": "obj:" + CMD + "CapabilitiesResponse", "payload": "memoryview"},
         requires=["len(payload) >= 4"],
         calls_inline=[CMD + "CapabilitiesResponse.__init__", CMD + "CapabilitiesResponse._parse_capabilities"],
         modifies=["self._capabilities", "self._additional_capabilities"],
         ensures={"additional_flag_is_second_to_last_byte": "self._additional_capabilities == (payload[len(payload) - 2] != 0)"},
         local_roles={"caps": "assigned_from:payload[2:]"},
         loops={"0": {
             "match": "range(0, ",
             "ghost_init": {"off": "2"},
             "modifies": ["self._capabilities"],
             "havoc": {"self._capabilities": "symdict:CAP_KEYS", "off": "nat"},
             "define": {"caps": "payload[off:]"},
             "invariant": ["2 <= off <= len(payload) - 2"],
             "assume": ["off + 3 <= len(payload) - 2 and off + 3 + payload[off + 2] <= len(payload) - 2"],
             "ghost_step": {"off": "pre(off) + 3 + payload[pre(off) + 2]"},
             "step_ensures": {
                 "record_interpreted_alone_and_merged_in_order":
                     "self._capabilities == merged(pre(self._capabilities), interp_alone(payload[pre(off):pre(off) + 3 + payload[pre(off) + 2]]))",
             }}})


# ---- derived capabilities are functions of the merged dictionary alone (so they survive paging: merge() only updates the dictionary) ----
def fan_spec(caps, speed):
    if any(k.startswith("fan_") for k in caps):
        return caps.get("fan_" + speed, False) or caps.get("fan_custom", False)
    return speed in ["low", "medium", "high", "auto"]


contract(CMD + "CapabilitiesResponse.fan_silent",
         params={"self": "obj:" + CMD + "CapabilitiesResponse"},
         raises={},
         returns="fan_spec(self._capabilities, 'silent')",
         notes="C15: a fan speed capability is decided by the capability dictionary as it is now (after any merge), not by anything remembered from parse time")

contract(CMD + "CapabilitiesResponse.fan_low",
         params={"self": "obj:" + CMD + "CapabilitiesResponse"},
         raises={},
         returns="fan_spec(self._capabilities, 'low')",
         notes="C15: a fan speed capability is decided by the capability dictionary as it is now (after any merge), not by anything remembered from parse time")

contract(CMD + "CapabilitiesResponse.fan_medium",
         params={"self": "obj:" + CMD + "CapabilitiesResponse"},
         raises={},
         returns="fan_spec(self._capabilities, 'medium')",
         notes="C15: a fan speed capability is decided by the capability dictionary as it is now (after any merge), not by anything remembered from parse time")

contract(CMD + "CapabilitiesResponse.fan_high",
         params={"self": "obj:" + CMD + "CapabilitiesResponse"},
         raises={},
         returns="fan_spec(self._capabilities, 'high')",
         notes="C15: a fan speed capability is decided by the capability dictionary as it is now (after any merge), not by anything remembered from parse time")

contract(CMD + "CapabilitiesResponse.fan_auto",
         params={"self": "obj:" + CMD + "CapabilitiesResponse"},
         raises={},
         returns="fan_spec(self._capabilities, 'auto')",
         notes="C15: a fan speed capability is decided by the capability dictionary as it is now (after any merge), not by anything remembered from parse time")

