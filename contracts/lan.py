"""Contracts for msmart.lan (C02, C03, C05, C06, C09 and the transport parts of C07/C08).

Spec functions follow the property statements / the protocol comments, not the code:
  V2 packet: 5A5A, 0111, le16(total), 2000, 4 zero bytes, 8 byte timestamp, le64(device id), 12 zero bytes,
             AES-128-ECB(md5(SIGN_KEY), pkcs7(frame)), md5(everything before ++ SIGN_KEY)
  V3 packet: 8370, be16(size), 20, pad<<4|type, AES-256-CBC(key, iv 0, be16(counter) ++ payload ++ pad random bytes),
             sha256(header ++ plaintext);  size = len(payload) + pad + 32,  pad = (-(len(payload)+2)) mod 16
"""
from pyvc.dsl import (aes_cbc_dec, aes_cbc_enc, aes_ecb_dec, aes_ecb_enc, contract, events, fields, final, fold, implies,
                      lemma, md5, old, opaque, pkcs7, pre, same_object, sha256, xor_bytes)
from msmart.lan import Security, _Packet, _LanProtocol, _LanProtocolV3, ProtocolError, AuthenticationError
from contracts.frame import frame_spec

LAN = "msmart.lan."

SIGN_KEY = b"xhdiwjnchekd4d512chdjx5d8e4c394D2D7S"


def le_n(x, n):
    return x.to_bytes(n, "little")


def be16(x):
    return x.to_bytes(2, "big")


def v2_packet(device_id, ts, frame):
    enc = aes_ecb_enc(md5(SIGN_KEY), pkcs7(frame))
    total = 40 + len(enc) + 16
    head = b"\x5a\x5a\x01\x11" + le_n(total, 2) + b"\x20\x00" + bytes(4) + ts + le_n(device_id, 8) + bytes(12)
    return head + enc + md5(head + enc + SIGN_KEY)


def v2_decodes_to(data, frame):
    """frame is what an accepted V2 packet `data` carries: marker, length within the data, keyed MD5 over everything before
    it matches, frame = PKCS#7-unpadded AES-128-ECB plaintext (the C02/C03 statements as a relation)"""
    total = int.from_bytes(data[4:6], "little")
    plain = aes_ecb_dec(md5(SIGN_KEY), data[:total][40:-16])
    return (len(data) >= 6 and data[:2] == b"\x5a\x5a" and total <= len(data)
            and md5(data[:total][:-16] + SIGN_KEY) == data[:total][-16:]
            and frame == plain[:len(frame)] and 1 <= len(plain) - len(frame) <= 16 and plain[-1] == len(plain) - len(frame))


def v2_len(frame_len):
    return 56 + 16 * (frame_len // 16 + 1)


contract(LAN + "_Packet._timestamp",
         params={},
         rtype="bytes[8]",
         ensures={"eight_bytes": "len(result) == 8"},
         raises={},
         notes="C02: no struct.error at any wall-clock time")

contract(LAN + "_Packet.encode",
         params={"device_id": "int[0,18446744073709551615]", "command": "bytes"},
         requires=["len(command) <= 65000"],
         raises={},
         exists={"ts": {"len": "8", "witness": "result[12:20]"}},
         returns="v2_packet(device_id, ts, command)",
         ensures={"total_length": "len(result) == v2_len(len(command))"})

contract(LAN + "_Packet.decode",
         params={"data": "bytes"},
         rtype="bytes",
         let={},
         raises={LAN + "ProtocolError": {}},
         post_let={"L": "int.from_bytes(data[4:6], 'little')", "D": "aes_ecb_dec(md5(SIGN_KEY), data[:int.from_bytes(data[4:6], 'little')][40:-16])"},
         ensures={"long_enough": "len(data) >= 6",
                  "marker": "data[:2] == b'\\x5a\\x5a'",
                  "not_truncated": "L <= len(data)",
                  "signature_covers_everything_before_it": "md5(data[:L][:-16] + SIGN_KEY) == data[:L][-16:]",
                  "frame_is_unpadded_plaintext": "result == D[:len(result)] and 1 <= len(D) - len(result) <= 16 and D[-1] == len(D) - len(result)"},
         notes="C03: accepted only when the signature matches; C09: nothing but ProtocolError escapes")

contract(LAN + "_Packet.decode#interop",
         params={"device_id": "int[0,18446744073709551615]", "ts": "bytes[8]", "frame": "bytes", "junk": "bytes"},
         requires=["len(frame) <= 65000"],
         let={"data": "v2_packet(device_id, ts, frame) + junk"},
         bind={"data": "data"},
         raises={},
         ensures={"independent_packets_decode": "result == frame"})


# ---- V3 -----------------------------------------------------------------------------------------------------------
V3 = LAN + "_LanProtocolV3"

fields(LAN + "_LanProtocol", _transport="opt:ext:transport", _peer="opt:str", _queue="ext:queue")
fields(V3, _queue="ext:queue:v3_queued", _packet_id="int", _buffer="bytearray", _local_key="opt:bytes[32]",
       _local_key_expiration="opt:ext:datetime")


def v3_queued(x):
    """post-condition of _LanProtocolV3.data_received for everything it queues"""
    return len(x) >= 8 and x[:2] == b"\x83\x70" and len(x) == int.from_bytes(x[2:4], "big") + 8


def v3_pad(n):
    return (-(n + 2)) % 16


def v3_packet(key, ctr, payload, rnd, typ):
    pad = len(rnd)
    header = b"\x83\x70" + be16(len(payload) + pad + 32) + b"\x20" + bytes([(pad << 4) | typ])
    plain = be16(ctr) + payload + rnd
    return header + aes_cbc_enc(key, plain) + sha256(header + plain)


contract(V3 + "._encode_encrypted_request",
         params={"self": "obj:" + V3, "packet_id": "int[0,65535]", "data": "bytes"},
         requires=["len(data) <= 65000"],
         raises={LAN + "ProtocolError": {"when": "self._local_key is None"}},
         exists={"rnd": {"len": "v3_pad(len(data))", "witness": "aes_cbc_dec(self._local_key, result[6:-32])[2 + len(data):]"}},
         returns="v3_packet(self._local_key, packet_id, data, rnd, 6)",
         ensures={"authenticated": "self._local_key is not None",
                  "length": "len(result) == 40 + len(data) + v3_pad(len(data))",
                  "size_field": "int.from_bytes(result[2:4], 'big') + 8 == len(result)",
                  "block_aligned": "len(result[6:-32]) % 16 == 0"})

contract(V3 + "._decode_encrypted_response",
         params={"self": "obj:" + V3, "packet": "memoryview"},
         requires=["len(packet) >= 8"],
         rtype="bytes",
         raises={LAN + "ProtocolError": {}},
         post_let={"D": "aes_cbc_dec(self._local_key, packet[6:-32])", "pad": "packet[5] >> 4"},
         ensures={"authenticated": "self._local_key is not None",
                  "ciphertext_is_block_aligned": "len(packet[6:-32]) % 16 == 0",
                  "tag_covers_header_and_plaintext": "sha256(bytes(packet[:6]) + D) == packet[-32:]",
                  "payload": "result == D[2:len(D) - pad]"})

contract(V3 + "._process_packet#interop",
         params={"self": "obj:" + V3, "ctr": "int[0,65535]", "payload": "bytes", "rnd": "bytes"},
         requires=["self._local_key is not None", "len(payload) <= 65000", "len(rnd) == v3_pad(len(payload))"],
         let={"packet": "memoryview(v3_packet(self._local_key, ctr, payload, rnd, 3))"},
         bind={"packet": "packet"},
         calls_inline=[V3 + "._decode_encrypted_response"],
         raises={},
         ensures={"independent_packets_decode": "result == payload"})

contract(V3 + "._process_packet",
         params={"self": "obj:" + V3, "packet": "memoryview"},
         requires=["v3_queued(packet)"],
         rtype="bytes",
         raises={LAN + "ProtocolError": {}},
         ensures={"type": "(packet[5] & 0xF) == 3 or (packet[5] & 0xF) == 1",
                  "handshake_payload": "implies((packet[5] & 0xF) == 1, result == packet[8:])"})


contract(V3 + "._process_packet#handshake_reply_bits",
         params={"self": "obj:" + V3, "proof": "bytes[64]", "rid": "bytes[2]", "pad": "int[0,15]", "rid2": "bytes[2]", "pad2": "int[0,15]"},
         requires=["rid2 != rid or pad2 != pad"],
         let={"packet": "memoryview(b'\\x83\\x70' + be16(64) + b'\\x20' + bytes([(pad2 << 4) | 1]) + rid2 + proof)"},
         bind={"packet": "packet"},
         raises={LAN + "ProtocolError": {}},
         ensures={"a_reply_altered_outside_the_proof_is_not_taken_for_the_genuine_one": "result != proof"},
         notes="the literal C06 clause 'any reply altered in any bit fails' for the bits of a handshake reply that carry no meaning "
               "(upper nibble of header byte 5, the two bytes of the response id): they are not covered by the proof and not inspected; "
               "refuted by design -> known finding F16 (the proof bytes themselves are decided by _get_local_key's iff-contract)")

# ---- C06: handshake -----------------------------------------------------------------------------------------------------
def hs_request(ctr, token):
    return b"\x83\x70" + be16(len(token)) + b"\x20" + bytes([0x00]) + be16(ctr) + token


def hs_reply_ok(key, data):
    """the reply proves knowledge of the key: 32 bytes encrypted nonce followed by sha256(nonce)"""
    return len(data) == 64 and sha256(aes_cbc_dec(key, bytes(data[:32]))) == data[32:]


contract(V3 + "._encode_handshake_request",
         params={"self": "obj:" + V3, "packet_id": "int[0,65535]", "data": "bytes"},
         requires=["len(data) <= 65000"],
         returns="hs_request(packet_id, data)", raises={})

contract(V3 + "._get_local_key",
         params={"self": "obj:" + V3, "key": "bytes[32]", "data": "memoryview"},
         rtype="bytes[32]",
         raises={LAN + "AuthenticationError": {"when": "not hs_reply_ok(key, data)"}},
         ensures={"reply_proves_key": "hs_reply_ok(key, data)",
                  "session_key": "result == xor_bytes(aes_cbc_dec(key, bytes(data[:32])), key)"})

contract(V3 + "._get_local_key#genuine",
         params={"self": "obj:" + V3, "key": "bytes[32]", "nonce": "bytes[32]"},
         let={"data": "memoryview(aes_cbc_enc(key, nonce) + sha256(nonce))"},
         bind={"data": "data"},
         raises={},
         ensures={"key_agreement": "result == xor_bytes(nonce, key)"})

contract(LAN + "_LanProtocol._flush",
         params={"self": "obj:" + V3},
         raises={}, modifies=["self._queue"],
         ensures={"drained": "self._queue.empty()"},
         loops={"0": {"match": "True", "modifies": ["self._queue"], "havoc": {"self._queue": "ext:queue:v3_queued"}}})

contract(LAN + "_LanProtocol.write",
         params={"self": "sub:" + LAN + "_LanProtocol", "data": "bytes"},
         requires=["self._transport is not None"],
         raises={LAN + "ProtocolError": {"post": {"nothing_written": "len(events('tx')) == 0"}, "emits": {"io": "'tx_refused'"}}},
         emits={"tx": "data", "tx_on": "self._transport", "io": "'tx'"},
         ensures={"written_once": "len(events('tx')) == 1 and events('tx')[0] == data"})

contract(V3 + ".write",
         params={"self": "obj:" + V3, "data": "bytes", "packet_type": "enum:" + V3 + ".PacketType"},
         requires=["self._transport is not None", "0 <= self._packet_id <= 0xFFF", "len(data) <= 65000"],
         modifies=["self._packet_id"],
         raises={LAN + "ProtocolError": {"post": {"nothing_written": "len(events('tx')) == 0", "counter_unchanged": "self._packet_id == old(self._packet_id)"}, "emits": {"io": "'tx_refused'"}},
                 "builtins.TypeError": {"when": "packet_type != 6 and packet_type != 0",
                                        "post": {"nothing_written": "len(events('tx')) == 0", "counter_unchanged": "self._packet_id == old(self._packet_id)"}}},
         emits={"tx": "hs_request(old(self._packet_id), data) if packet_type == 0 else v3_data_packet(self, old(self._packet_id), data)",
                "tx_on": "self._transport", "io": "'tx'"},
         post_let={"T": "events('tx')"},
         ensures={"one_packet": "len(T) == 1",
                  "counter_advances_and_wraps": "self._packet_id == (old(self._packet_id) + 1) & 0xFFF",
                  "handshake_format": "implies(packet_type == 0, T[0] == hs_request(old(self._packet_id), data))",
                  "data_needs_session_key": "implies(packet_type == 6, self._local_key is not None)",
                  "data_format": "implies(packet_type == 6, T[0][:6] == b'\\x83\\x70' + be16(len(data) + v3_pad(len(data)) + 32) + b'\\x20' + bytes([(v3_pad(len(data)) << 4) | 6]) and sha256(bytes(T[0][:6]) + aes_cbc_dec(self._local_key, T[0][6:-32])) == T[0][-32:] and aes_cbc_dec(self._local_key, T[0][6:-32])[:2 + len(data)] == be16(old(self._packet_id)) + data)"})


def v3_data_packet(proto, ctr, data):
    """some encrypted request for (ctr, data) under the protocol's session key (random padding left open)"""
    return proto._encode_encrypted_request(ctr, data)


NO_LEAK = {"no_consumer_left_behind": "pending_getters(self._queue) == 0"}

contract(V3 + ".read",
         params={"self": "obj:" + V3, "timeout": "int[0,60]"},
         rtype="bytes", cancellation=True,
         modifies=["self._queue"], emits={"pkt_in": "result"},
         raises={LAN + "ProtocolError": {"post": NO_LEAK}, "builtins.TimeoutError": {"when": "timeout != 0", "post": NO_LEAK},
                 "asyncio.QueueEmpty": {"when": "timeout == 0", "post": NO_LEAK}, "asyncio.CancelledError": {"when": "timeout != 0"}},
         ensures=NO_LEAK,
         notes="C09: whatever was queued, reading it ends in decoded bytes, a protocol error or a timeout; "
               "C08: a read that timed out leaves nothing behind that would take the next packet away from the next read")

contract(LAN + "_LanProtocol.read",
         params={"self": "obj:" + LAN + "_LanProtocol", "timeout": "int[0,60]"},
         rtype="bytes", cancellation=True,
         modifies=["self._queue"], emits={"pkt_in": "result"},
         raises={"builtins.TimeoutError": {"when": "timeout != 0", "post": NO_LEAK}, "asyncio.QueueEmpty": {"when": "timeout == 0", "post": NO_LEAK},
                 "asyncio.CancelledError": {"when": "timeout != 0"}},
         ensures=NO_LEAK)

contract(V3 + ".authenticate",
         params={"self": "obj:" + V3, "token": "opt:bytes", "key": "opt:bytes[32]"},
         requires=["self._transport is not None", "0 <= self._packet_id <= 0xFFF", "implies(token is not None, len(token) <= 65000)"],
         modifies=["self._local_key", "self._local_key_expiration", "self._packet_id", "self._queue"],
         post_let={"T": "events('tx')"},
         emits={"tx": "hs_request(old(self._packet_id), token)"},
         raises={LAN + "AuthenticationError": {"emits": {"tx": "maybe(hs_request(old(self._packet_id), token)) if (token is not None and key is not None) else []"}, "post": {
                     "counter_in_range": "0 <= self._packet_id <= 0xFFF",
                     "session_stays_unauthenticated": "implies(len(events('tx')) == 0, self._local_key == old(self._local_key) and same_object(self._local_key_expiration, old(self._local_key_expiration))) and implies(len(events('tx')) >= 1, self._local_key is None and self._local_key_expiration is None)",
                     "only_handshake_requests_sent": "len(events('tx')) <= 1 and implies(len(events('tx')) == 1, events('tx')[0] == hs_request(old(self._packet_id), token))"}},
                 "builtins.TimeoutError": {"when": "token is not None and key is not None", "emits": {"tx": "hs_request(old(self._packet_id), token)"}, "post": {
                     "counter_in_range": "0 <= self._packet_id <= 0xFFF",
                     "session_stays_unauthenticated": "implies(len(events('tx')) == 0, self._local_key == old(self._local_key) and same_object(self._local_key_expiration, old(self._local_key_expiration))) and implies(len(events('tx')) >= 1, self._local_key is None and self._local_key_expiration is None)",
                     "only_handshake_requests_sent": "len(events('tx')) == 1 and events('tx')[0] == hs_request(old(self._packet_id), token)"}},
                 "asyncio.CancelledError": {"when": "token is not None and key is not None", "emits": {"tx": "hs_request(old(self._packet_id), token)"}, "post": {
                     "counter_in_range": "0 <= self._packet_id <= 0xFFF",
                     "session_stays_unauthenticated": "implies(len(events('tx')) == 0, self._local_key == old(self._local_key) and same_object(self._local_key_expiration, old(self._local_key_expiration))) and implies(len(events('tx')) >= 1, self._local_key is None and self._local_key_expiration is None)"}}},
         cancellation=True,
         notes="C06/C07: once a handshake request has been written the previous session is over (the device answers with a new nonce and moves to "
               "its key): every exit without a verified reply leaves the protocol unauthenticated, so the next exchange starts with a handshake",
         ensures={"counter_in_range": "0 <= self._packet_id <= 0xFFF",
                  "credentials_present": "token is not None and key is not None and len(token) > 0",
                  "one_handshake_request": "len(T) == 1 and T[0] == hs_request(old(self._packet_id), token)",
                  "session_key_set": "self._local_key is not None and len(self._local_key) == 32",
                  "expires_in_12h": "self._local_key_expiration is not None",
                  "authenticated_on_return": "self.authenticated"})


# ---- C04: V3 stream reassembly ------------------------------------------------------------------------------------------
from pyvc.dsl import byte_at, forall, maybe


def marker_at(s, j):
    return byte_at(s, j) == 0x83 and byte_at(s, j + 1) == 0x70


def no_marker(s, a, z):
    """no start marker lies completely inside s[a:z]"""
    return forall(a, z - 1, lambda j: not marker_at(s, j))


def packet_at(s, b, st, en):
    """after marker-free bytes s[b:st] a complete well-formed packet s[st:en] follows"""
    return (b <= st and st + 8 <= en and en <= len(s) and no_marker(s, b, st + 1) and marker_at(s, st)
            and en == st + 8 + int.from_bytes(s[st + 2:st + 4], "big"))


def holds_complete_packet(buf):
    """the buffer still contains a deliverable packet at its first start marker"""
    r = buf.find(b"\x83\x70")
    return r >= 0 and len(buf) - r >= 6 and len(buf) - r >= int.from_bytes(buf[r + 2:r + 4], "big") + 8


contract(V3 + ".data_received",
         params={"self": "obj:" + V3, "S": "bytes", "b0": "int[0,1099511627776]", "pos": "int[0,1099511627776]", "pos2": "int[0,1099511627776]"},
         requires=["b0 <= pos and pos <= pos2 and pos2 <= len(S)", "self._buffer == S[b0:pos]"],
         let={"data": "S[pos:pos2]"},
         bind={"data": "data"},
         modifies=["self._buffer", "self._queue"],
         raises={},
         ensures={"buffer_is_the_unconsumed_tail": "self._buffer == S[final('b'):pos2] and b0 <= final('b') <= pos2",
                  "nothing_deliverable_is_withheld": "not holds_complete_packet(self._buffer)"},
         local_roles={"start": "assigned_from:.find(", "total_size": "assigned_from:int.from_bytes("},
         loops={"0": {
             "match": "len(self._buffer) > 0",
             "ghost_init": {"b": "b0", "st": "0", "en": "0"},
             "modifies": ["self._buffer", "self._queue"],
             "havoc": {"b": "int[0,1099511627776]", "st": "int[0,1099511627776]", "en": "int[0,1099511627776]",
                       "self._buffer": "bytearray", "self._queue": "ext:queue:v3_queued"},
             "define": {"self._buffer": "bytearray(S[b:pos2])"},
             "invariant": ["b0 <= b and b <= pos2"],
             "assume": ["no_marker(S, b, len(S)) or packet_at(S, b, st, en)"],
             "ghost_step": {"b": "pre(en)"},
             "step_hints": {"marker_found_is_the_packet_start": "start == pre(st) - pre(b)",
                            "size_field_is_the_packet_length": "total_size == pre(en) - pre(st)"},
             "step_ensures": {
                 "delivers_exactly_the_next_packet_once": "len(events('queued')) == pre(len(events('queued'))) + 1 and events('queued')[-1] == S[pre(st):pre(en)]",
             }}})


# ---- the LAN object: C07 session discipline, C08 retry/recovery, C09 containment ---------------------------------------------
LANC = LAN + "LAN"

fields(LANC, _ip="str", _port="int[0,65535]", _device_id="int[0,18446744073709551615]", _token="opt:bytes", _key="opt:bytes[32]",
       _protocol_version="int", _protocol="union:none|obj:" + LAN + "_LanProtocol|obj:" + V3,
       _connection_expiration="opt:ext:datetime", _max_connection_lifetime="opt:ext:timedelta")


def proto_ok(p):
    """class invariant of a protocol object held by a LAN object (Sess, DESIGN 4-C07): it was connected
    (create_connection called connection_made) and its packet counter fits the 12 bit field"""
    return p is None or (p._transport is not None and (not isinstance(p, _LanProtocolV3) or 0 <= p._packet_id <= 0xFFF))


def lifetime_armed(lan):
    """C07: a configured connection lifetime is in force on the connection that exists (whenever it was configured)"""
    return lan._protocol is None or not lan._max_connection_lifetime or lan._connection_expiration is not None


def lan_inv(lan):
    return proto_ok(lan._protocol) and (lan._token is None or len(lan._token) <= 65000) and lifetime_armed(lan)


contract(LANC + "._read",
         params={"self": "obj:" + LANC, "timeout": "int[0,60]"},
         bind_kwargs=["timeout"], defaults={"timeout": "2"},
         requires=["self._protocol is not None", "lan_inv(self)"],
         rtype="bytes",
         modifies=["self._protocol._queue"], emits={"frame_in": "result"},
         raises={LAN + "ProtocolError": {}, "builtins.TimeoutError": {"when": "timeout != 0"},
                 "asyncio.QueueEmpty": {"when": "timeout == 0"}, "asyncio.CancelledError": {"when": "timeout != 0"}},
         ensures={"one_packet_is_taken": "len(events('pkt_in')) == 1",
                  "frame_is_the_verified_decoding_of_that_packet": "v2_decodes_to(events('pkt_in')[0], result)"},
         notes="C03/C01: what LAN hands up is the decoding of exactly the packet the protocol layer handed up, accepted only with a "
               "matching signature (the relation is _Packet.decode's post-condition, not its body)")

contract(LANC + "._read_available",
         params={"self": "obj:" + LANC},
         requires=["self._protocol is not None", "lan_inv(self)"],
         yields="bytes", emits={"io": "'drain'"},
         modifies=["self._protocol._queue"],
         raises={LAN + "ProtocolError": {}},
         loops={"0": {"match": "True", "modifies": ["self._protocol._queue"],
                      "step_ensures": {"yields_exactly_the_frame_it_read": "len(events('yield')) == pre(len(events('yield'))) + 1 and len(events('frame_in')) == pre(len(events('frame_in'))) + 1 "
                                                                           "and same_object(events('yield')[-1], events('frame_in')[-1])"}}},
         notes="async generator: yields decoded frames until the queue is empty; only QueueEmpty is swallowed; every item it yields is "
               "the frame the LAN._read call of the same iteration returned (so the decode relation of _read holds for it)")


def as_bytes(x):
    return bytes.fromhex(x) if isinstance(x, str) else x


contract(LANC + ".authenticate",
         params={"self": "obj:" + LANC, "token": "union:none|bytes", "key": "union:none|bytes[32]", "retries": "int[1,8]"},
         requires=["lan_inv(self)", "implies(token is not None, len(token) <= 65000)"],
         cancellation=True, emits={"phase": "'handshake'"},
         modifies=["self._token", "self._key", "self._protocol", "self._protocol_version", "self._connection_expiration", "self._protocol.*"],
         let={"tok": "self._token if (token is None or key is None) else token", "k": "self._key if (token is None or key is None) else key",
              "old_retries": "retries", "was_alive": "alive_spec(self)", "was_v3": "isinstance(self._protocol, _LanProtocolV3)"},
         post_let={"T": "events('tx')", "PH": "events('phase')"},
         raises={LAN + "ProtocolError": {"post": {"stored_credentials_not_replaced": "self._token == old(self._token) and self._key == old(self._key)",
                                                 "recoverable": "lan_inv(self)",
                                                 "only_handshake_requests_sent": "all_handshakes(events('tx'), tok)"}},
                 "builtins.TimeoutError": {"post": {"stored_credentials_not_replaced": "self._token == old(self._token) and self._key == old(self._key)",
                                                    "recoverable": "lan_inv(self)",
                                                    "only_handshake_requests_sent": "all_handshakes(events('tx'), tok)"}},
                 "asyncio.CancelledError": {"post": {"recoverable": "lan_inv(self)"}}},
         ensures={"credentials_stored": "self._token == tok and self._key == k",
                  "v3_session": "isinstance(self._protocol, _LanProtocolV3) and self._protocol._local_key is not None and lan_inv(self)",
                  "only_handshake_requests_sent": "all_handshakes(T, tok)",
                  "at_least_one_at_most_retries": "1 <= len(T) <= retries",
                  # C07: a handshake never goes out on a dead, expired or non-V3 connection: that one is replaced first
                  "reconnects_unless_on_a_live_v3_connection": "('connect' in PH) == (not was_alive or not was_v3)",
                  "handshake_goes_out_on_the_current_connection": "all(same_object(t, self._protocol._transport) for t in events('tx_on'))"},
         loops={"0": {"match": "retries > 0", "ghost_init": {"n": "0"}, "havoc": {"n": "int[0,8]"},
                      "modifies": ["self._protocol._local_key", "self._protocol._local_key_expiration", "self._protocol._packet_id", "self._protocol._queue"],
                      "invariant": ["n == old_retries - retries", "1 <= retries", "lan_inv(self)", "isinstance(self._protocol, _LanProtocolV3)"],
                      "ghost_step": {"n": "pre(n) + 1"}}})


contract(LANC + ".authenticate#hex_credentials",
         params={"self": "obj:" + LANC, "token": "str", "key": "str", "retries": "int[1,8]"},
         requires=["lan_inv(self)", "len(hexbytes(token)) <= 65000"],
         let={"old_retries": "retries"},
         cancellation=True,
         modifies=["self._token", "self._key", "self._protocol", "self._protocol_version", "self._connection_expiration", "self._protocol.*"],
         raises={LAN + "ProtocolError": {}, "builtins.TimeoutError": {}, "asyncio.CancelledError": {},
                 "builtins.ValueError": {"modifies": [], "post": {"nothing_sent": "len(events('tx')) == 0"}}},
         ensures={"hex_credentials_are_stored_as_their_bytes": "self._token == hexbytes(token) and self._key == hexbytes(key)",
                  "handshake_carries_the_token_bytes": "all_handshakes(events('tx'), hexbytes(token))"},
         notes="C06 quantifies over credentials in hex-string or bytes form: a hex string means exactly bytes.fromhex of it "
               "(ValueError for a string that is not hexadecimal, before anything is sent)")


def all_handshakes(T, token):
    return all(len(p) >= 8 and p[:2] == b"\x83\x70" and (p[5] & 0xF) == 0 and p[8:] == token for p in T)


def is_data_packet_for(p, proto, frame_packet):
    """p is an encrypted request whose plaintext carries frame_packet, under proto's session key"""
    return (len(p) >= 40 and p[:2] == b"\x83\x70" and (p[5] & 0xF) == 6 and proto._local_key is not None
            and aes_cbc_dec(proto._local_key, p[6:-32])[2:2 + len(frame_packet)] == frame_packet)


APPENDS_RESP = "len(responses) == pre(len(responses)) + 1 and same_object(responses[-1], resp)"

contract(LANC + ".send",
         params={"self": "obj:" + LANC, "data": "bytes", "retries": "int[1,8]"},
         requires=["lan_inv(self)", "len(data) <= 60000"],
         cancellation=True, rtype="list:bytes",
         emits={"lan_send": "data", "lan_recv": "result"},
         modifies=["self._token", "self._key", "self._protocol", "self._protocol_version", "self._connection_expiration", "self._protocol.*"],
         let={"old_retries": "retries", "was_alive": "alive_spec(self)",
              "was_v3": "isinstance(self._protocol, _LanProtocolV3)",
              "was_authenticated": "isinstance(self._protocol, _LanProtocolV3) and authenticated_spec(self._protocol)"},
         post_let={"PH": "events('phase')"},
         raises={LAN + "ProtocolError": {"post": {"recoverable": "lan_inv(self)",
                                                  # C08: once connected and authenticated, the exchange fails with a protocol error only after the request was
                                                  # handed to the transport (or the transport refused it): stale or malformed packets that arrived while idle
                                                  # cannot keep the request from being transmitted
                                                  "transmitted_before_a_protocol_error": "'drain' not in events('io') or 'tx' in events('io') or 'tx_refused' in events('io')"}},
                 "builtins.TimeoutError": {"post": {"recoverable": "lan_inv(self)"}},
                 "asyncio.CancelledError": {"post": {"recoverable": "lan_inv(self)"}}},
         ensures={"recoverable": "lan_inv(self)",
                  "connected": "self._protocol is not None",
                  "got_a_response": "len(result) >= 1",
                  "v3_authenticated_before_data": "implies(isinstance(self._protocol, _LanProtocolV3), self._protocol._local_key is not None)",
                  "transmitted_at_least_once_at_most_retries": "1 <= final('n') + 1 <= old_retries",
                  # C07: a dead / expired connection is replaced, and a V3 session without a valid handshake is re-authenticated, before any data
                  "reconnects_when_not_alive": "(not was_alive) == ('connect' in PH)",
                  "handshake_before_data_when_needed": "implies(isinstance(self._protocol, _LanProtocolV3), ('handshake' in PH) == (not was_alive or not was_authenticated))",
                  "connect_precedes_handshake": "PH in (['connect', 'handshake'], ['handshake'], ['connect'], [])",
                  # C01 glue: what goes on the wire is the V2 packet of exactly this frame and device id (V3: inside an encrypted request)
                  "c01.packet_wraps_the_frame": "pkcs7(data) == aes_ecb_dec(md5(SIGN_KEY), final('packet')[40:-16]) and final('packet')[20:28] == self._device_id.to_bytes(8, 'little')",
                  "c01.packet_is_what_is_written": "implies(not isinstance(self._protocol, _LanProtocolV3), events('tx')[-1] == final('packet')) and implies(isinstance(self._protocol, _LanProtocolV3), is_data_packet_for(events('tx')[-1], self._protocol, final('packet')))",
                  # C01 (interleaved unsolicited frames): frames that arrived while idle are consumed before the request goes out, so the
                  # blocking read can only be answered by something that arrived after it; whatever else is available is returned with it
                  "c01.stale_frames_are_drained_before_the_request_goes_out": "events('io')[0] == 'drain' and 'tx' in events('io')",
                  "c01.everything_available_is_returned": "events('io')[-1] == 'drain'",
                  # C01/C03 (up): the list handed to the device layer consists of frames LAN._read produced (each the verified decoding of a
                  # packet the protocol layer handed up): the two drain loops append exactly what _read_available yields, a retry adds nothing,
                  # and the awaited response is the result of the blocking LAN._read
                  "c01.awaited_response_is_what_was_read": "len(events('frame_in')) == 1 and result[final('k0')] == events('frame_in')[0]",
                  "data_goes_out_on_the_current_connection": "all(same_object(t, self._protocol._transport) for t in events('tx_on'))"},
         local_roles={"packet": "assigned_from:_Packet.encode", "responses": "returned", "resp": "loop0.target"},
         loops={"0": {"match": "True", "havoc": {"responses": "list:bytes"}, "modifies": ["self._protocol._queue"],
                      "invariant": ["lan_inv(self)", "self._protocol is not None", "implies(isinstance(self._protocol, _LanProtocolV3), self._protocol._local_key is not None)"]},
                "1": {"match": "_read_available", "havoc": {"responses": "list:bytes"},
                      "step_ensures": {"keeps_exactly_the_frame_that_was_read": APPENDS_RESP}},
                "2": {"match": "retries > 0", "ghost_init": {"n": "0", "k0": "len(responses)"}, "havoc": {"n": "int[0,8]", "k0": "int[0,1099511627776]", "responses": "list:bytes"},
                      "modifies": ["self._protocol._packet_id", "self._protocol._queue"],
                      "invariant": ["n == old_retries - retries", "1 <= retries", "lan_inv(self)", "self._protocol is not None", "len(responses) == k0",
                                    "implies(isinstance(self._protocol, _LanProtocolV3), self._protocol._local_key is not None)"],
                      "ghost_step": {"n": "pre(n) + 1"},
                      "step_hints": {"one_transmission_per_iteration": "len(events('tx')) == pre(len(events('tx'))) + 1"},
                      "variant": "retries"},
                "3": {"match": "_read_available", "havoc": {"responses": "list:bytes"}, "invariant": ["len(responses) >= 1", "len(responses) > k0", "responses[k0] == events('frame_in')[0]"],
                      "step_ensures": {"keeps_exactly_the_frame_that_was_read": APPENDS_RESP}}})


# ---- small LAN helpers by contract (keeps LAN.send's paths few) -------------------------------------------------------------
from datetime import datetime, timezone


def transport_alive(p):
    return p._transport is not None and not p._transport.is_closing()


def alive_spec(lan):
    return (lan._protocol is not None and transport_alive(lan._protocol)
            and not (lan._connection_expiration is not None and datetime.now(timezone.utc) > lan._connection_expiration))


def authenticated_spec(p):
    return (p._local_key is not None and p._local_key_expiration is not None
            and not (datetime.now(timezone.utc) > p._local_key_expiration))


contract(LAN + "_LanProtocol.alive", params={"self": "sub:" + LAN + "_LanProtocol"}, returns="transport_alive(self)", raises={})
contract(V3 + ".authenticated", params={"self": "obj:" + V3}, returns="authenticated_spec(self)", raises={})
contract(LANC + "._alive", params={"self": "obj:" + LANC}, returns="alive_spec(self)", raises={})

contract(LANC + "._disconnect",
         params={"self": "obj:" + LANC},
         requires=["lan_inv(self)"],
         assigns={"self._protocol": "None"},
         raises={},
         ensures={"closed": "implies(old(self._protocol) is not None, len(events('closed')) == 1)"})

contract(LANC + "._connect",
         params={"self": "obj:" + LANC},
         cancellation=True, emits={"phase": "'connect'"},
         modifies=["self._protocol", "self._connection_expiration"],
         raises={"builtins.TimeoutError": {"modifies": []}, LAN + "ProtocolError": {"modifies": []}, "asyncio.CancelledError": {"modifies": []}},
         ensures={"connected": "self._protocol is not None and self._protocol._transport is not None and transport_alive(self._protocol)",
                  "class_by_version": "isinstance(self._protocol, _LanProtocolV3) == (self._protocol_version == 3)",
                  "fresh_v3_session": "implies(isinstance(self._protocol, _LanProtocolV3), self._protocol._local_key is None and self._protocol._local_key_expiration is None and self._protocol._packet_id == 0)",
                  "lifetime": "implies(self._max_connection_lifetime is None, self._connection_expiration == old(self._connection_expiration))",
                  "configured_lifetime_is_armed": "lifetime_armed(self)",
                  "not_expired_yet": "implies(self._max_connection_lifetime is not None and self._max_connection_lifetime.total_seconds() > 0, alive_spec(self))"})


# ---- device level (C08/C09): network failures become "no response" -------------------------------------------------------------
from contracts.device import DEV  # noqa: E402  (field declarations of Device)

contract("msmart.base_device.Device._send_command#transport",
         params={"self": "obj:msmart.base_device.Device", "command": "obj:msmart.frame.Frame"},
         requires=["lan_inv(self._lan)", "0 <= command._device_type <= 255", "0 <= command._frame_type <= 255",
                   "0 <= command._protocol_version <= 255"],
         cancellation=True,
         modifies=["self._lan.*", "self._lan._protocol.*"],
         raises={"asyncio.CancelledError": {"post": {"serialised_exactly_once": "len(events('serialised')) == 1"}}},
         post_let={"LS": "events('lan_send')", "LR": "events('lan_recv')"},
         ensures={"still_recoverable": "lan_inv(self._lan)",
                  "serialised_exactly_once": "len(events('serialised')) == 1",
                  "c01.frame_handed_to_the_transport_unchanged": "len(result) == 0 or len(LS) == 1 and LS[0] == frame_spec(command._device_type, command._protocol_version, command._frame_type, bytes())",
                  "c01.responses_returned_unchanged": "len(result) == 0 or (len(LR) == 1 and same_object(result, LR[0]))"},
         notes="C08/C09: ProtocolError and TimeoutError of the transport are turned into an empty response list")

contract("msmart.base_device.Device.authenticate",
         params={"self": "obj:msmart.base_device.Device", "token": "union:none|bytes", "key": "union:none|bytes[32]"},
         requires=["lan_inv(self._lan)", "implies(token is not None, len(token) <= 65000)"],
         cancellation=True,
         modifies=["self._lan.*", "self._lan._protocol.*"],
         raises={LAN + "AuthenticationError": {"post": {"stored_credentials_not_replaced": "self._lan._token == old(self._lan._token) and self._lan._key == old(self._lan._key)"}},
                 "asyncio.CancelledError": {}})


# ---- C03 / C05: truncation lemmas (proved outright; content tampering reduces to the hash assumptions) --------------------------
contract(LAN + "_Packet.decode#truncated",
         noreturn=True,
         params={"device_id": "int[0,18446744073709551615]", "ts": "bytes[8]", "frame": "bytes", "k": "int[0,70000]"},
         requires=["len(frame) <= 65000", "k < v2_len(len(frame))"],
         let={"data": "v2_packet(device_id, ts, frame)[:k]"},
         bind={"data": "data"},
         raises={LAN + "ProtocolError": {}},
         ensures={"a_truncated_packet_is_never_accepted": "False"})


contract(LAN + "_Packet.decode#signature_tamper",
         noreturn=True,
         params={"device_id": "int[0,18446744073709551615]", "ts": "bytes[8]", "frame": "bytes", "i": "int[0,15]", "v": "byte"},
         requires=["len(frame) <= 65000", "v != v2_packet(device_id, ts, frame)[v2_len(len(frame)) - 16 + i]"],
         let={"p": "v2_packet(device_id, ts, frame)",
              "data": "v2_packet(device_id, ts, frame)[:v2_len(len(frame)) - 16 + i] + bytes([v]) + v2_packet(device_id, ts, frame)[v2_len(len(frame)) - 15 + i:]"},
         bind={"data": "data"},
         raises={LAN + "ProtocolError": {}},
         ensures={"an_altered_signature_is_never_accepted": "False"},
         notes="C03: altering any byte of the signature is rejected outright (no cryptographic assumption needed)")

contract(LAN + "_Packet.decode#marker_tamper",
         noreturn=True,
         params={"device_id": "int[0,18446744073709551615]", "ts": "bytes[8]", "frame": "bytes", "i": "int[0,1]", "v": "byte"},
         requires=["len(frame) <= 65000", "v != 0x5a"],
         let={"data": "v2_packet(device_id, ts, frame)[:i] + bytes([v]) + v2_packet(device_id, ts, frame)[i + 1:]"},
         bind={"data": "data"},
         raises={LAN + "ProtocolError": {}},
         ensures={"an_altered_start_marker_is_never_accepted": "False"})


# ---- every connection starts with state of its own (C07: session state never survives a reconnect; C04: one buffer per connection) ----
from pyvc.dsl import has_own, pending_getters, hexbytes

contract(LAN + "_LanProtocol.__init__",
         params={"self": "new:" + LAN + "_LanProtocol"},
         modifies=["self.*"], raises={},
         ensures={"declared_attribute_types_hold": "conforms(self)",
                  "own_queue": "has_own(self, '_queue') and self._queue.empty()",
                  "not_connected_yet": "has_own(self, '_transport') and self._transport is None"})

contract(V3 + ".__init__",
         params={"self": "new:" + V3},
         modifies=["self.*"], raises={},
         ensures={"declared_attribute_types_hold": "conforms(self)",
                  "own_receive_state": "has_own(self, '_buffer') and has_own(self, '_queue') and len(self._buffer) == 0 and self._queue.empty()",
                  "own_session_state": "has_own(self, '_packet_id') and has_own(self, '_local_key') and has_own(self, '_local_key_expiration')",
                  "fresh_session": "self._packet_id == 0 and self._local_key is None and self._local_key_expiration is None",
                  "not_connected_yet": "has_own(self, '_transport') and self._transport is None"},
         notes="a new protocol object per connection (LAN._connect) starts unauthenticated, counter 0, with an empty buffer and queue that no other connection shares")


from pyvc.dsl import conforms

contract(LANC + ".__init__",
         params={"self": "new:" + LANC, "ip": "str", "port": "int[0,65535]", "device_id": "int[0,18446744073709551615]"},
         modifies=["self.*"], raises={},
         ensures={"declared_attribute_types_hold": "conforms(self)",
                  "targets": "self._ip == ip and self._port == port and self._device_id == device_id",
                  "no_session_yet": "self._protocol is None and self._token is None and self._key is None and self._protocol_version == 2",
                  "no_lifetime_limit": "self._connection_expiration is None and self._max_connection_lifetime is None",
                  "invariant_established": "lan_inv(self)"},
         notes="C07: the session discipline is an induction over calls on lan_inv; this is its base case")

contract(LANC + ".max_connection_lifetime!setter",
         params={"self": "obj:" + LANC, "seconds": "opt:int[0,86400000]"},
         requires=["lan_inv(self)"],
         modifies=["self._max_connection_lifetime", "self._connection_expiration"], raises={},
         ensures={"none_means_unlimited": "(self._max_connection_lifetime is None) == (seconds is None)",
                  "seconds_kept": "implies(seconds is not None, self._max_connection_lifetime.total_seconds() == seconds)",
                  "invariant_kept": "lan_inv(self)",
                  "lifetime_counts_from_now_at_the_latest": "implies(self._protocol is not None and seconds is not None and seconds > 0, "
                                                            "self._connection_expiration is not None and not (self._connection_expiration > datetime.now(timezone.utc) + self._max_connection_lifetime))"},
         notes="C07: configuring a lifetime while a connection exists arms it on that connection (F18)")


# ---- event-loop callbacks of the protocol objects: they are called by the environment, so they are verified on their own -----------
contract(LAN + "_LanProtocol.connection_made",
         params={"self": "sub:" + LAN + "_LanProtocol", "transport": "ext:transport"},
         modifies=["self._peer"], assigns={"self._transport": "transport"}, raises={},
         notes="proto_ok / lan_inv rely on it: a connected protocol has its transport")

contract(LAN + "_LanProtocol.connection_lost",
         params={"self": "sub:" + LAN + "_LanProtocol", "exc": "opt:str"},
         modifies=[], raises={},
         ensures={"still_has_its_transport": "(self._transport is None) == (old(self._transport) is None)"},
         notes="C08/C09: losing the connection changes nothing in the protocol object (the transport is closing; LAN._alive sees that, "
               "LAN._disconnect() still finds the transport to close and replaces the protocol); in particular lan_inv keeps holding")
