"""Public read access (C11, C13, C15, C16, C17): every property the statements observe exposes exactly the stored value.

The contracts of refresh / _update_state / _update_capabilities speak about the private attributes; these getter contracts carry
the claims to what a user reads (a getter that rounds, caches, defaults or falls back would break them).
"""
from pyvc.dsl import contract
from msmart.device.AC.command import PropertyId
AC = "msmart.device.AC.device.AirConditioner"
G = {"msmart.device.AC.command.Command._message_id": "int"}

DEV = "msmart.base_device.Device"

contract(AC + ".power_state", params={"self": "obj:" + AC}, globals=G, returns="self._power_state", raises={})
contract(AC + ".fahrenheit", params={"self": "obj:" + AC}, globals=G, returns="self._fahrenheit_unit", raises={})
contract(AC + ".target_temperature", params={"self": "obj:" + AC}, globals=G, returns="self._target_temperature", raises={})
contract(AC + ".indoor_temperature", params={"self": "obj:" + AC}, globals=G, returns="self._indoor_temperature", raises={})
contract(AC + ".outdoor_temperature", params={"self": "obj:" + AC}, globals=G, returns="self._outdoor_temperature", raises={})
contract(AC + ".operational_mode", params={"self": "obj:" + AC}, globals=G, returns="self._operational_mode", raises={})
contract(AC + ".fan_speed", params={"self": "obj:" + AC}, globals=G, returns="self._fan_speed", raises={})
contract(AC + ".swing_mode", params={"self": "obj:" + AC}, globals=G, returns="self._swing_mode", raises={})
contract(AC + ".eco", params={"self": "obj:" + AC}, globals=G, returns="self._eco", raises={})
contract(AC + ".turbo", params={"self": "obj:" + AC}, globals=G, returns="self._turbo", raises={})
contract(AC + ".freeze_protection", params={"self": "obj:" + AC}, globals=G, returns="self._freeze_protection", raises={})
contract(AC + ".sleep", params={"self": "obj:" + AC}, globals=G, returns="self._sleep", raises={})
contract(AC + ".follow_me", params={"self": "obj:" + AC}, globals=G, returns="self._follow_me", raises={})
contract(AC + ".purifier", params={"self": "obj:" + AC}, globals=G, returns="self._purifier", raises={})
contract(AC + ".display_on", params={"self": "obj:" + AC}, globals=G, returns="self._display_on", raises={})
contract(AC + ".filter_alert", params={"self": "obj:" + AC}, globals=G, returns="self._filter_alert", raises={})
contract(AC + ".target_humidity", params={"self": "obj:" + AC}, globals=G, returns="self._target_humidity", raises={})
contract(AC + ".indoor_humidity", params={"self": "obj:" + AC}, globals=G, returns="self._indoor_humidity", raises={})
contract(AC + ".aux_mode", params={"self": "obj:" + AC}, globals=G, returns="self._aux_mode", raises={})
contract(AC + ".beep", params={"self": "obj:" + AC}, globals=G, returns="self._beep_on", raises={})
contract(AC + ".total_energy_usage", params={"self": "obj:" + AC}, globals=G, returns="self._total_energy_usage", raises={})
contract(AC + ".current_energy_usage", params={"self": "obj:" + AC}, globals=G, returns="self._current_energy_usage", raises={})
contract(AC + ".real_time_power_usage", params={"self": "obj:" + AC}, globals=G, returns="self._real_time_power_usage", raises={})
contract(AC + ".horizontal_swing_angle", params={"self": "obj:" + AC}, globals=G, returns="self._horizontal_swing_angle", raises={})
contract(AC + ".vertical_swing_angle", params={"self": "obj:" + AC}, globals=G, returns="self._vertical_swing_angle", raises={})
contract(AC + ".ieco", params={"self": "obj:" + AC}, globals=G, returns="self._ieco", raises={})
contract(AC + ".rate_select", params={"self": "obj:" + AC}, globals=G, returns="self._rate_select", raises={})
contract(AC + ".self_clean_active", params={"self": "obj:" + AC}, globals=G, returns="self._self_clean_active", raises={})
contract(AC + ".min_target_temperature", params={"self": "obj:" + AC}, globals=G, returns="self._min_target_temperature", raises={})
contract(AC + ".max_target_temperature", params={"self": "obj:" + AC}, globals=G, returns="self._max_target_temperature", raises={})
contract(AC + ".supported_operation_modes", params={"self": "obj:" + AC}, globals=G, returns="self._supported_op_modes", raises={})
contract(AC + ".supported_fan_speeds", params={"self": "obj:" + AC}, globals=G, returns="self._supported_fan_speeds", raises={})
contract(AC + ".supports_custom_fan_speed", params={"self": "obj:" + AC}, globals=G, returns="self._supports_custom_fan_speed", raises={})
contract(AC + ".supported_swing_modes", params={"self": "obj:" + AC}, globals=G, returns="self._supported_swing_modes", raises={})
contract(AC + ".supports_eco", params={"self": "obj:" + AC}, globals=G, returns="self._supports_eco", raises={})
contract(AC + ".supports_turbo", params={"self": "obj:" + AC}, globals=G, returns="self._supports_turbo", raises={})
contract(AC + ".supports_freeze_protection", params={"self": "obj:" + AC}, globals=G, returns="self._supports_freeze_protection", raises={})
contract(AC + ".supports_purifier", params={"self": "obj:" + AC}, globals=G, returns="self._supports_purifier", raises={})
contract(AC + ".supports_display_control", params={"self": "obj:" + AC}, globals=G, returns="self._supports_display_control", raises={})
contract(AC + ".supports_filter_reminder", params={"self": "obj:" + AC}, globals=G, returns="self._supports_filter_reminder", raises={})
contract(AC + ".supports_humidity", params={"self": "obj:" + AC}, globals=G, returns="self._supports_humidity", raises={})
contract(AC + ".supports_target_humidity", params={"self": "obj:" + AC}, globals=G, returns="self._supports_target_humidity", raises={})
contract(AC + ".supported_rate_selects", params={"self": "obj:" + AC}, globals=G, returns="self._supported_rate_selects", raises={})
contract(AC + ".supported_aux_modes", params={"self": "obj:" + AC}, globals=G, returns="self._supported_aux_modes", raises={})
contract(AC + ".enable_energy_usage_requests", params={"self": "obj:" + AC}, globals=G, returns="self._request_energy_usage", raises={})
contract(AC + ".use_alternate_energy_format", params={"self": "obj:" + AC}, globals=G, returns="self._use_binary_energy", raises={})
contract(AC + ".supports_eco_mode", params={"self": "obj:" + AC}, globals=G, returns="self._supports_eco", raises={})
contract(AC + ".eco_mode", params={"self": "obj:" + AC}, globals=G, returns="self._eco", raises={})
contract(AC + ".supports_freeze_protection_mode", params={"self": "obj:" + AC}, globals=G, returns="self._supports_freeze_protection", raises={})
contract(AC + ".freeze_protection_mode", params={"self": "obj:" + AC}, globals=G, returns="self._freeze_protection", raises={})
contract(AC + ".sleep_mode", params={"self": "obj:" + AC}, globals=G, returns="self._sleep", raises={})
contract(AC + ".supports_turbo_mode", params={"self": "obj:" + AC}, globals=G, returns="self._supports_turbo", raises={})
contract(AC + ".turbo_mode", params={"self": "obj:" + AC}, globals=G, returns="self._turbo", raises={})
contract(AC + ".supports_breeze_away", params={"self": "obj:" + AC}, globals=G, returns="PropertyId.BREEZE_AWAY in self._supported_properties or PropertyId.BREEZE_CONTROL in self._supported_properties", raises={})
contract(AC + ".supports_breeze_mild", params={"self": "obj:" + AC}, globals=G, returns="PropertyId.BREEZE_CONTROL in self._supported_properties", raises={})
contract(AC + ".supports_breezeless", params={"self": "obj:" + AC}, globals=G, returns="PropertyId.BREEZELESS in self._supported_properties or PropertyId.BREEZE_CONTROL in self._supported_properties", raises={})
contract(AC + ".supports_horizontal_swing_angle", params={"self": "obj:" + AC}, globals=G, returns="PropertyId.SWING_LR_ANGLE in self._supported_properties", raises={})
contract(AC + ".supports_vertical_swing_angle", params={"self": "obj:" + AC}, globals=G, returns="PropertyId.SWING_UD_ANGLE in self._supported_properties", raises={})
contract(AC + ".supports_ieco", params={"self": "obj:" + AC}, globals=G, returns="PropertyId.IECO in self._supported_properties", raises={})
contract(AC + ".supports_self_clean", params={"self": "obj:" + AC}, globals=G, returns="PropertyId.SELF_CLEAN in self._supported_properties", raises={})
contract(DEV + ".ip", params={"self": "obj:" + DEV}, returns="self._ip", raises={})
contract(DEV + ".port", params={"self": "obj:" + DEV}, returns="self._port", raises={})
contract(DEV + ".id", params={"self": "obj:" + DEV}, returns="self._id", raises={})
contract(DEV + ".type", params={"self": "obj:" + DEV}, returns="self._type", raises={})
contract(DEV + ".name", params={"self": "obj:" + DEV}, returns="self._name", raises={})
contract(DEV + ".sn", params={"self": "obj:" + DEV}, returns="self._sn", raises={})
contract(DEV + ".version", params={"self": "obj:" + DEV}, returns="self._version", raises={})
contract(DEV + ".online", params={"self": "obj:" + DEV}, returns="self._online", raises={})
contract(DEV + ".supported", params={"self": "obj:" + DEV}, returns="self._supported", raises={})

# to_dict (the view C13 observes): every entry is the stored value under its documented name
contract(DEV + ".to_dict", params={"self": "obj:" + DEV},
         ensures={"identity": "result['ip'] == self._ip and result['port'] == self._port and result['id'] == self._id and result['type'] == self._type "
                              "and result['name'] == self._name and result['sn'] == self._sn",
                  "status": "result['online'] == self._online and result['supported'] == self._supported"},
         raises={})

contract(AC + ".to_dict", params={"self": "obj:" + AC}, globals=G, calls_inline=[DEV + ".to_dict"],
         ensures={"state": "result['power'] == self._power_state and result['mode'] == self._operational_mode and result['fan_speed'] == self._fan_speed "
                           "and result['swing_mode'] == self._swing_mode and result['target_temperature'] == self._target_temperature "
                           "and result['indoor_temperature'] == self._indoor_temperature and result['outdoor_temperature'] == self._outdoor_temperature "
                           "and result['target_humidity'] == self._target_humidity and result['indoor_humidity'] == self._indoor_humidity",
                  "flags": "result['eco'] == self._eco and result['turbo'] == self._turbo and result['freeze_protection'] == self._freeze_protection "
                           "and result['sleep'] == self._sleep and result['display_on'] == self._display_on and result['beep'] == self._beep_on "
                           "and result['fahrenheit'] == self._fahrenheit_unit and result['filter_alert'] == self._filter_alert "
                           "and result['follow_me'] == self._follow_me and result['purifier'] == self._purifier and result['aux_mode'] == self._aux_mode",
                  "properties": "result['horizontal_swing_angle'] == self._horizontal_swing_angle and result['vertical_swing_angle'] == self._vertical_swing_angle "
                                "and result['self_clean'] == self._self_clean_active and result['rate_select'] == self._rate_select",
                  "energy": "result['total_energy_usage'] == self._total_energy_usage and result['current_energy_usage'] == self._current_energy_usage "
                            "and result['real_time_power_usage'] == self._real_time_power_usage",
                  "identity_and_status": "result['ip'] == self._ip and result['online'] == self._online and result['supported'] == self._supported"},
         raises={})
