"""Contracts for msmart.cloud and the cloud part of msmart.discover (C19).

What is decided here: token selection (the pair returned belongs to an entry whose udpId equals the requested id; CloudError
when none does), the retry loop of _post_request (at most `retries` posts, error mapping), API error codes, the udpid
derivation and the order/endianness/credential hand-over of _authenticate_device.  JSON, HTTP and string library behaviour
is assumed (uninterpreted deterministic values).  The request signature format is NOT decided (see DESIGN.md 4-C19).
"""
from pyvc.dsl import contract, events, fields, final, implies, lemma, old, same_object, sha256, xor_bytes
from msmart.cloud import ApiError, BaseCloud, CloudError, NetHomePlusCloud
from msmart.lan import Security

CLOUD = "msmart.cloud."
NHP = CLOUD + "NetHomePlusCloud"

fields(CLOUD + "BaseCloud", _account="str", _password="str", _api_lock="ext:lock", _base_url="str", _login_id="opt:str",
       _session="ext:json", _get_async_client="ext:client_factory")
fields(NHP, _session_id="str", _security="obj:" + NHP + "._Security")

contract("msmart.lan.Security.udpid",
         params={"device_id": "bytes[6]"},
         returns="xor_bytes(sha256(device_id)[:16], sha256(device_id)[16:])", raises={})

contract(NHP + "._parse_response",
         params={"self": "obj:" + NHP, "response": "ext:http_response"},
         rtype="ext:json",
         raises={CLOUD + "ApiError": {}, "builtins.KeyError": {}, "builtins.ValueError": {}, "builtins.TypeError": {}},
         notes="non-zero errorCode -> ApiError (a CloudError); KeyError/ValueError only for bodies that are not API responses")

contract(CLOUD + "BaseCloud._post_request",
         params={"self": "obj:" + NHP, "url": "str", "headers": "none", "raw_data": "none", "form_data": "ext:json", "retries": "int[1,8]"},
         rtype="ext:json",
         let={"R": "retries"},
         raises={CLOUD + "CloudError": {}, "builtins.KeyError": {}, "builtins.ValueError": {}, "builtins.TypeError": {}},
         ensures={"at_most_the_configured_attempts": "1 <= len(events('http_post')) <= R"},
         loops={"0": {"match": "retries > 0", "ghost_init": {"n": "0"}, "havoc": {"n": "int[0,8]"},
                      "invariant": ["n == R - retries", "retries >= 1"],
                      "ghost_step": {"n": "pre(n) + 1"},
                      "step_hints": {"one_post_per_attempt": "len(events('http_post')) == pre(len(events('http_post'))) + 1"},
                      "variant": "retries"}})

contract(NHP + "._api_request",
         assumed="signs the request (urllib, hashlib over strings) and posts it under the API lock; string functions are uninterpreted, the raise set is taken from _post_request and _parse_response which are verified",
         params={"self": "obj:" + NHP, "endpoint": "str", "body": "ext:json"},
         rtype="ext:json",
         raises={CLOUD + "CloudError": {}, "builtins.KeyError": {}, "builtins.ValueError": {}, "builtins.TypeError": {}},
         notes="used at call sites; body: signs the request and posts it under the API lock")

contract(CLOUD + "BaseCloud.get_token",
         params={"self": "obj:" + NHP, "udpid": "str"},
         rtype="tuple:ext:json,ext:json",
         emits={"token_req": "udpid", "token_res": "result"},
         raises={CLOUD + "CloudError": {}, "builtins.KeyError": {}, "builtins.ValueError": {}, "builtins.TypeError": {}},
         ensures={"credentials_of_a_matching_entry_only": "final('token')['udpId'] == udpid and result == (final('token')['token'], final('token')['key'])"},
         local_roles={"token": "loop0.target"},
         loops={"0": {"match": "tokenlist", "havoc": {"token": "opt:ext:json"}}})


# ---- C19: a discovered V3 device is authenticated with the credentials registered for its id, in either byte order ----------------
DISC = "msmart.discover."
contract(DISC + "Discover._get_cloud",
         assumed="creates / returns the class-level cloud connection under a class-level lock (shared state the contracts do not describe)",
         params={},
         rtype="obj:" + NHP,
         raises={CLOUD + "CloudError": {}},
         notes="used at call sites")

contract("msmart.base_device.Device.authenticate#cloud",
         verified_by=["msmart.base_device.Device.authenticate"],
         assumed="call-site view of Device.authenticate for credentials that are JSON values (uninterpreted); the body is verified by the contract msmart.base_device.Device.authenticate with bytes credentials",
         params={"self": "obj:msmart.base_device.Device", "token": "ext:json", "key": "ext:json"},
         emits={"auth": "(token, key)"},
         raises={"msmart.lan.AuthenticationError": {"emits": {"auth": "(token, key)"}}},
         notes="call-site view of Device.authenticate for credentials that are JSON values; the body is verified by the main contract in contracts/lan.py")

contract(DISC + "Discover._authenticate_device",
         params={"dev": "obj:msmart.base_device.Device"},
         requires=["0 <= dev._id <= 281474976710655"],
         use={"msmart.base_device.Device.authenticate": "msmart.base_device.Device.authenticate#cloud"},
         raises={CLOUD + "CloudError": {}, "builtins.KeyError": {}, "builtins.ValueError": {}, "builtins.TypeError": {}},
         post_let={"Q": "events('token_req')", "TR": "events('token_res')", "A": "events('auth')"},
         ensures={"little_endian_id_first": "len(Q) >= 1 and Q[0] == Security.udpid(dev._id.to_bytes(6, 'little')).hex()",
                  "big_endian_id_second": "implies(len(Q) == 2, Q[1] == Security.udpid(dev._id.to_bytes(6, 'big')).hex())",
                  "at_most_both_orders": "len(Q) <= 2 and len(A) == len(Q) and len(TR) == len(Q)",
                  "gives_up_only_after_both_orders": "implies(not result, len(Q) == 2)",
                  "credentials_are_the_ones_returned_for_that_id": "all(same_object(a[0], t[0]) and same_object(a[1], t[1]) for a, t in zip(A, TR))"})
