"""Contracts for msmart.cloud and the cloud part of msmart.discover (C19).

What is decided here: token selection (the pair returned belongs to an entry whose udpId equals the requested id; CloudError
when none does), the retry loop of _post_request (at most `retries` posts of exactly the request it was given, error mapping),
API error codes, the udpid derivation and the order/endianness/credential hand-over of _authenticate_device, and the request
side of the NetHome Plus flow: every posted form (login id, login, token) goes to the documented endpoint, carries the current
session id, a time stamp and a signature computed over every field that is posted; the login password is derived from the login
id the server issued; the session id used afterwards is the one the login response carried; a new cloud connection is logged in
before Discover hands it out.  _api_request, _build_request_body (both levels), _Security.sign and _get_login_id have no contract
of their own: they are inlined into (and so re-verified with) get_token and login.  JSON, HTTP, urllib and hashlib-over-str
behaviour is assumed (uninterpreted deterministic functions), so the signature clauses compare the code with a transcription of
the API convention: they catch dropped / reordered / late-added fields, the wrong key, a stale or missing session id - not a
wrong convention.  The SmartHome cloud (not used by discovery) is not under contract.
"""
import hashlib
import hmac
from urllib.parse import unquote_plus, urlencode, urlparse

from pyvc.dsl import contract, events, fields, final, implies, lemma, old, same_object, sha256, xor_bytes
from msmart.cloud import ApiError, BaseCloud, CloudError, NetHomePlusCloud
from msmart.discover import Discover
from msmart.lan import Security

CLOUD = "msmart.cloud."
NHP = CLOUD + "NetHomePlusCloud"

fields(CLOUD + "BaseCloud", _account="str", _password="str", _api_lock="ext:lock", _base_url="str", _login_id="opt:str",
       _session="ext:json", _get_async_client="ext:client_factory")
fields(NHP, _session_id="str", _security="obj:" + NHP + "._Security")

contract("msmart.lan.Security.udpid",
         params={"device_id": "bytes[6]"},
         returns="xor_bytes(sha256(device_id)[:16], sha256(device_id)[16:])", raises={})

contract(NHP + "._parse_response",
         params={"self": "obj:" + NHP, "response": "ext:http_response"},
         rtype="ext:json",
         raises={CLOUD + "ApiError": {}, "builtins.KeyError": {}, "builtins.ValueError": {}, "builtins.TypeError": {}},
         notes="non-zero errorCode -> ApiError (a CloudError); KeyError/ValueError only for bodies that are not API responses")

contract(CLOUD + "BaseCloud._post_request",
         params={"self": "obj:" + NHP, "url": "str", "headers": "none", "raw_data": "none", "form_data": "ext:json", "retries": "int[1,8]"},
         rtype="ext:json",
         let={"R": "retries"},
         raises={CLOUD + "CloudError": {}, "builtins.KeyError": {}, "builtins.ValueError": {}, "builtins.TypeError": {}},
         emits={"api_post": "(url, form_data)", "api_result": "result"},
         ensures={"at_most_the_configured_attempts": "1 <= len(events('http_post')) <= R",
                  "every_attempt_posts_the_request_it_was_given": "all(p[0] == url and same_object(p[3], form_data) for p in events('http_post'))"},
         loops={"0": {"match": "retries > 0", "ghost_init": {"n": "0"}, "havoc": {"n": "int[0,8]"},
                      "invariant": ["n == R - retries", "retries >= 1"],
                      "ghost_step": {"n": "pre(n) + 1"},
                      "step_hints": {"one_post_per_attempt": "len(events('http_post')) == pre(len(events('http_post'))) + 1"},
                      "variant": "retries"}})

def nhp_sign(endpoint, form):
    """the signature a conforming NetHome Plus server recomputes: over every posted field except `sign` itself"""
    signed = sorted((k, v) for k, v in form.items() if k != "sign")
    return hashlib.sha256((urlparse(endpoint).path + unquote_plus(urlencode(signed)) + NHP_APP_KEY).encode("ASCII")).hexdigest()


def nhp_request_ok(post, base_url, endpoint, session_id):
    """one posted API request: URL, session id, time stamp and signature over everything that is posted"""
    url, form = post
    return (url == base_url + endpoint and "sign" in form and "stamp" in form and "sessionId" in form
            and form["sessionId"] == session_id and form["appId"] == "1017" and form["sign"] == nhp_sign(endpoint, form))


NHP_APP_KEY = "3742e9e5842d4ad59c2db887e12449f9"
REQ_RAISES = {CLOUD + "CloudError": {"emits": {"token_req": "udpid"},
                                     "post": {"request_as_the_server_verifies_it": "all(nhp_request_ok(p, self._base_url, EP, old(self._session_id)) for p in events('api_post'))"}},
              "builtins.KeyError": {}, "builtins.ValueError": {}, "builtins.TypeError": {}}

contract(CLOUD + "BaseCloud.get_token",
         params={"self": "obj:" + NHP, "udpid": "str"},
         rtype="tuple:ext:json,ext:json",
         let={"EP": "'/v1/iot/secure/getToken'"},
         emits={"token_req": "udpid", "token_res": "result"},
         raises=REQ_RAISES,
         post_let={"P": "events('api_post')"},
         ensures={"credentials_of_a_matching_entry_only": "final('token')['udpId'] == udpid and result == (final('token')['token'], final('token')['key'])",
                  "one_request": "len(P) == 1",
                  "request_as_the_server_verifies_it": "nhp_request_ok(P[0], self._base_url, EP, old(self._session_id))",
                  "request_names_the_device": "P[0][1]['udpid'] == udpid"},
         local_roles={"token": "loop0.target"},
         loops={"0": {"match": "tokenlist", "havoc": {"token": "opt:ext:json"}}})


# ---- C19: a discovered V3 device is authenticated with the credentials registered for its id, in either byte order ----------------
DISC = "msmart.discover."
NOT_CACHED = {"a_connection_that_failed_to_log_in_is_not_kept": "implies(old(Discover._cloud) is None, Discover._cloud is None)"}

contract(DISC + "Discover._get_cloud",
         params={},
         globals={DISC + "Discover._cloud": "opt:obj:" + NHP, DISC + "Discover._lock": "ext:lock", DISC + "Discover._region": "str",
                  DISC + "Discover._account": "opt:str", DISC + "Discover._password": "opt:str",
                  DISC + "Discover._get_async_client": "opt:ext:client_factory"},
         rtype="obj:" + NHP,
         assigns={"Discover._cloud": "result"},
         raises={CLOUD + "CloudError": {"post": NOT_CACHED}, "builtins.KeyError": {"post": NOT_CACHED}, "builtins.ValueError": {"post": NOT_CACHED},
                 "builtins.TypeError": {"post": NOT_CACHED}},
         post_let={"LG": "events('login')"},
         ensures={"a_new_connection_is_logged_in_before_it_is_handed_out": "implies(old(Discover._cloud) is None, len(LG) == 1 and same_object(LG[0], result))",
                  "an_existing_connection_is_reused": "implies(old(Discover._cloud) is not None, len(LG) == 0 and same_object(result, old(Discover._cloud)))"},
         notes="C19: the cloud connection handed to _authenticate_device went through login() (so its session id is the one the server issued)")

contract("msmart.base_device.Device.authenticate#cloud",
         verified_by=["msmart.base_device.Device.authenticate"],
         assumed="call-site view of Device.authenticate for credentials that are JSON values (uninterpreted); the body is verified by the contract msmart.base_device.Device.authenticate with bytes credentials",
         params={"self": "obj:msmart.base_device.Device", "token": "ext:json", "key": "ext:json"},
         emits={"auth": "(token, key)"},
         raises={"msmart.lan.AuthenticationError": {"emits": {"auth": "(token, key)"}}},
         notes="call-site view of Device.authenticate for credentials that are JSON values; the body is verified by the main contract in contracts/lan.py")

contract(DISC + "Discover._authenticate_device",
         params={"dev": "obj:msmart.base_device.Device"},
         requires=["0 <= dev._id <= 281474976710655"],
         use={"msmart.base_device.Device.authenticate": "msmart.base_device.Device.authenticate#cloud"},
         raises={CLOUD + "CloudError": {"post": {"gives_up_only_after_both_orders": "len(events('token_req')) != 1"}},
                 "builtins.KeyError": {}, "builtins.ValueError": {}, "builtins.TypeError": {}},
         post_let={"Q": "events('token_req')", "TR": "events('token_res')", "A": "events('auth')"},
         ensures={"little_endian_id_first": "len(Q) >= 1 and Q[0] == Security.udpid(dev._id.to_bytes(6, 'little')).hex()",
                  "big_endian_id_second": "implies(len(Q) == 2, Q[1] == Security.udpid(dev._id.to_bytes(6, 'big')).hex())",
                  "at_most_both_orders": "len(Q) <= 2 and len(A) == len(TR) and len(TR) <= len(Q)",
                  "gives_up_only_after_both_orders": "implies(not result, len(Q) == 2)",
                  "credentials_are_the_ones_returned_for_that_id": "all(same_object(a[0], t[0]) and same_object(a[1], t[1]) for a, t in zip(A, TR))"})


# ---- C19: request side (signature, login id, password derivation, session id) -----------------------------------------
# The API convention is transcribed here from the NetHome Plus protocol description (the same convention the vendor app
# follows): sign = sha256hex(path(endpoint) + unquote_plus(urlencode(sorted(fields))) + APP_KEY) over every field of the
# posted form except `sign` itself; password = sha256hex(loginId + sha256hex(password) + APP_KEY).  urllib / hashlib over
# str are uninterpreted deterministic functions, so these clauses catch dropped or reordered fields, a signature computed
# before all fields are present, the wrong key, a missing or stale session id - not a wrong convention.
contract(NHP + "._Security.encrypt_password#derivation",
         params={"self": "obj:" + NHP + "._Security", "login_id": "str", "password": "str"},
         returns="hashlib.sha256((login_id + hashlib.sha256(password.encode('ASCII')).hexdigest() + '3742e9e5842d4ad59c2db887e12449f9').encode('ASCII')).hexdigest()",
         raises={"builtins.UnicodeEncodeError": {}})


def nhp_password(login_id, password):
    """the login password a conforming server recomputes from its stored password hash"""
    return hashlib.sha256((login_id + hashlib.sha256(password.encode("ASCII")).hexdigest() + NHP_APP_KEY).encode("ASCII")).hexdigest()


contract(NHP + ".login",
         params={"self": "obj:" + NHP, "force": "bool"},
         raises={CLOUD + "CloudError": {}, "builtins.KeyError": {}, "builtins.ValueError": {}, "builtins.TypeError": {}},
         modifies=["self._login_id", "self._session", "self._session_id"],
         emits={"login": "self"},
         post_let={"P": "events('api_post')", "SID": "old(self._session_id)"},
         ensures={"session_id_changes_only_by_a_login": "implies(len(P) == 0, self._session_id == SID)",
                  "login_id_requests_as_the_server_verifies_them": "all(nhp_request_ok(p, self._base_url, '/v1/user/login/id/get', SID) and p[1]['loginAccount'] == self._account for p in P[:-1])",
                  "login_request_as_the_server_verifies_it": "implies(len(P) >= 1, nhp_request_ok(P[-1], self._base_url, '/v1/user/login', SID) and P[-1][1]['loginAccount'] == self._account)",
                  "password_is_derived_from_the_login_id": "implies(len(P) >= 1, P[-1][1]['password'] == nhp_password(self._login_id, self._password))",
                  "login_id_is_the_one_the_server_issued": "implies(len(P) >= 2, same_object(self._login_id, events('api_result')[-2]['loginId']))",
                  "session_id_is_the_one_the_server_issued": "implies(len(P) >= 1, same_object(self._session, events('api_result')[-1]) and same_object(self._session_id, self._session['sessionId']))"})


# ---- SmartHome cloud (not used by discovery; same flow, different convention) -------------------------------------------------
from msmart.cloud import SmartHomeCloud  # noqa: E402

SHC = CLOUD + "SmartHomeCloud"
fields(SHC, _access_token="str", _security="obj:" + SHC + "._Security")
fields(SHC + "._Security", _use_china_server="bool")

contract(SHC + ".__init__",
         params={"self": "new:" + SHC, "region": "str", "account": "opt:str", "password": "opt:str", "use_china_server": "bool"},
         modifies=["self.*"],
         raises={"builtins.ValueError": {}},
         ensures={"signing_keys_are_those_of_the_server_the_requests_go_to": "(self._base_url == SmartHomeCloud.BASE_URL_CHINA) == self._security._use_china_server",
                  "one_of_the_two_servers": "self._base_url == SmartHomeCloud.BASE_URL_CHINA or self._base_url == SmartHomeCloud.BASE_URL",
                  "explicit_choice_is_honoured": "implies(use_china_server, self._security._use_china_server)",
                  "no_session_yet": "self._access_token == ''"},
         notes="C19 (SmartHome): the HMAC / login keys differ between the international and the China server; whatever selects the server "
               "(argument or MIDEA_CHINA_SERVER in the environment) must select the keys too")

contract(SHC + "._Security.sign#derivation",
         params={"self": "obj:" + SHC + "._Security", "data": "str", "random": "str"},
         returns="hmac.new('PROD_VnoClJI9aikS8dyy'.encode('ASCII'), ((('prod_secret123@muc' if self._use_china_server else 'meicloud') + data + random)).encode('ASCII'), hashlib.sha256).hexdigest()",
         raises={"builtins.UnicodeEncodeError": {}})

contract(SHC + "._Security.encrypt_password#derivation",
         params={"self": "obj:" + SHC + "._Security", "login_id": "str", "password": "str"},
         returns="hashlib.sha256((login_id + hashlib.sha256(password.encode('ASCII')).hexdigest() + ('ad0ee21d48a64bf49f4fb583ab76e799' if self._use_china_server else 'ac21b9f9cbfe4ca5a88562ef25e2b768')).encode('ASCII')).hexdigest()",
         raises={"builtins.UnicodeEncodeError": {}})

contract(SHC + "._Security.encrypt_iam_password#derivation",
         params={"self": "obj:" + SHC + "._Security", "login_id": "str", "password": "str"},
         returns="hashlib.md5(hashlib.md5(password.encode('ASCII')).hexdigest().encode('ASCII')).hexdigest() if self._use_china_server else "
                 "hashlib.sha256((login_id + hashlib.md5(hashlib.md5(password.encode('ASCII')).hexdigest().encode('ASCII')).hexdigest() + 'ac21b9f9cbfe4ca5a88562ef25e2b768').encode('ASCII')).hexdigest()",
         raises={"builtins.UnicodeEncodeError": {}})


contract(NHP + ".__init__",
         params={"self": "new:" + NHP, "region": "str", "account": "opt:str", "password": "opt:str"},
         modifies=["self.*"],
         raises={"builtins.ValueError": {}},
         ensures={"explicit_credentials_are_used_as_given": "implies(bool(account) and bool(password), self._account == account and self._password == password)",
                  "no_session_yet": "self._session_id == '' and self._login_id is None",
                  "server": "self._base_url == NetHomePlusCloud.BASE_URL"},
         notes="C19: the login account and the password that the derivation hashes are exactly the ones the user supplied")
