"""Contracts for msmart.discover (C17, C18).

Reply format (C17 statement / protocol): V2 = 40 byte header with le48(device id) at offset 20, AES-128-ECB/PKCS7 body
under the fixed key, 16 byte tail; V3 = the same wrapped in 8 leading and 16 trailing bytes.
body = reversed(ip)[4] ++ le16(port) ++ 2 bytes ++ sn[32] ++ [len(name)] ++ name ++ rest, name = net_<hex type>_<suffix>.
String library behaviour (bytes.decode, str.split, int(.,16), IPv4Address, ET.fromstring) is assumed (uninterpreted
deterministic functions with their raise conditions), so the contract pins offsets, lengths, dispatch and error mapping.
"""
from pyvc.dsl import (aes_ecb_dec, aes_ecb_enc, contract, events, fields, final, implies, is_xml, lemma, md5, old, pkcs7, same_object)
from contracts.lan import SIGN_KEY, lan_inv
from msmart.discover import Discover, DiscoverError, _DiscoverProtocol
from msmart.device import AirConditioner, Device
from msmart.const import DISCOVERY_MSG

DISC = "msmart.discover."


def disc_body(ip_rev, port, pad2, sn, name, rest):
    return ip_rev + port.to_bytes(2, "little") + pad2 + sn + bytes([len(name)]) + name + rest


def disc_reply_v2(head20, device_id, head14, body, tail16):
    return head20 + device_id.to_bytes(6, "little") + head14 + aes_ecb_enc(md5(SIGN_KEY), pkcs7(body)) + tail16


contract(DISC + "Discover._get_device_version",
         params={"data": "bytes"},
         rtype="int[1,3]",
         raises={DISC + "DiscoverError": {"when": "not (data[:2] == b'\\x5a\\x5a' or data[:2] == b'\\x83\\x70')"}},
         ensures={"v2_marker": "implies(result == 2, data[:2] == b'\\x5a\\x5a')",
                  "v3_marker": "implies(result == 3, data[:2] == b'\\x83\\x70')",
                  "binary_replies_are_not_v1": "implies(len(data) >= 2 and (data[:2] == b'\\x5a\\x5a' or data[:2] == b'\\x83\\x70'), result != 1)"})

contract(DISC + "Discover._get_device_class",
         params={"device_type": "int"},
         ensures={"ac_iff_type_ac": "(result is AirConditioner) == (device_type == 0xAC)",
                  "otherwise_generic": "implies(device_type != 0xAC, result is Device)"},
         raises={})

contract(DISC + "Discover._get_device_info",
         params={"ip": "str", "version": "int[2,3]", "data": "bytes"},
         raises={DISC + "DiscoverError": {}},
         notes="C18: whatever a host sends, the only exception is DiscoverError (V1 replies are a separate path)")

contract(DISC + "Discover._get_device_info#wellformed",
         params={"ip": "str", "version": "int[2,3]", "head20": "bytes[20]", "device_id": "int[0,281474976710655]", "head14": "bytes[14]",
                 "ip_rev": "bytes[4]", "port": "int[0,65535]", "pad2": "bytes[2]", "sn": "bytes[32]", "name": "bytes", "rest": "bytes",
                 "tail16": "bytes[16]", "pre8": "bytes[8]", "post16": "bytes[16]"},
         requires=["len(name) <= 255", "len(rest) <= 1000"],
         let={"inner": "disc_reply_v2(head20, device_id, head14, disc_body(ip_rev, port, pad2, sn, name, rest), tail16)",
              "data": "(pre8 + disc_reply_v2(head20, device_id, head14, disc_body(ip_rev, port, pad2, sn, name, rest), tail16) + post16) if version == 3 else disc_reply_v2(head20, device_id, head14, disc_body(ip_rev, port, pad2, sn, name, rest), tail16)"},
         bind={"data": "data"},
         raises={DISC + "DiscoverError": {}},
         ensures={"source_address_wins": "result['ip'] == ip",
                  "port": "result['port'] == port",
                  "device_id": "result['device_id'] == device_id",
                  "version": "result['version'] == version",
                  "serial_is_the_32_bytes_at_8": "result['sn'] == sn.decode()",
                  "name_is_the_length_prefixed_field": "result['name'] == name.decode()",
                  "type_is_the_hex_field_of_the_name": "result['device_type'] == int(name.decode().split('_')[1], 16)"})


# ---- C18: one task per responding address; bad responders raise nothing -------------------------------------------------------
fields(DISC + "_DiscoverProtocol", _transport="opt:ext:transport", _discovery_packets="int[0,16]", _interface="opt:str", _target="str",
       _discovered_ips="ext:pset", tasks="ext:pset")

contract(DISC + "_DiscoverProtocol.datagram_received",
         params={"self": "obj:" + DISC + "_DiscoverProtocol", "data": "bytes", "ip": "str", "port": "int[0,65535]"},
         let={"addr": "(ip, port)", "seen": "ip in self._discovered_ips"},
         bind={"addr": "addr"},
         modifies=["self._discovered_ips", "self.tasks"],
         raises={},
         post_let={"T": "events('task_created')"},
         ensures={"address_with_a_task_is_remembered": "implies(seen or len(T) == 1, ip in self._discovered_ips)",
                  "a_reply_that_is_no_midea_reply_does_not_use_up_the_address": "implies(not seen and len(T) == 0, not (ip in self._discovered_ips))",
                  "duplicates_create_nothing": "implies(seen, len(T) == 0)",
                  "at_most_one_task_per_datagram": "len(T) <= 1",
                  "a_v2_or_v3_reply_from_a_new_address_gets_its_task": "implies(not seen and (data[:2] == b'\\x5a\\x5a' or data[:2] == b'\\x83\\x70'), len(T) == 1)",
                  "task_is_registered": "implies(len(T) == 1, T[0] in self.tasks)"})

contract(DISC + "Discover._get_device",
         params={"ip": "str", "version": "int[1,3]", "data": "bytes"},
         globals={DISC + "Discover._auto_connect": "const:False"},
         calls_inline=[DISC + "Discover._get_device_info", DISC + "Discover._get_device_class"],
         requires=["(version == 1) == is_xml(data)"],
         cancellation=False,
         raises={},
         ensures={"device_has_the_source_address": "result is None or result._ip == ip",
                  "ac_devices_are_controllable": "result is None or (isinstance(result, AirConditioner) == (result._type == 0xAC))"},
         notes="C18: with auto_connect off no reply whatsoever makes the per-host task raise, so gather() cannot be aborted by one host")

fields(DISC + "_V1DeviceInfoProtocol", _transport="opt:ext:transport", response="opt:bytes")

contract(DISC + "_DiscoverProtocol._send_discovery",
         params={"self": "obj:" + DISC + "_DiscoverProtocol"},
         requires=["self._transport is not None", "self._discovery_packets == 3"],
         raises={},
         post_let={"S": "events('sendto')"},
         ensures={"probe_count": "len(S) == 6",
                  "probe_is_the_discovery_message": "all(s[0] == DISCOVERY_MSG for s in S)",
                  "both_ports": "[s[1][1] for s in S] == [6445, 6445, 6445, 20086, 20086, 20086]",
                  "to_the_target": "all(s[1][0] == self._target for s in S)"})

lemma("C17.discovery_probe_is_pinned",
      params={},
      ensures={"length": "len(DISCOVERY_MSG) == 72",
               "header": "DISCOVERY_MSG[:8] == bytes([0x5a, 0x5a, 0x01, 0x11, 0x48, 0x00, 0x92, 0x00])",
               "digest": "md5(bytes(DISCOVERY_MSG)).hex() == PROBE_MD5"})

PROBE_MD5 = "91d880c04f486cd7e23081eda4eaa58d"


contract(DISC + "Discover._get_device#wellformed",
         params={"ip": "str", "version": "int[2,3]", "head20": "bytes[20]", "device_id": "int[0,281474976710655]", "head14": "bytes[14]",
                 "ip_rev": "bytes[4]", "port": "int[0,65535]", "pad2": "bytes[2]", "sn": "bytes[32]", "name": "bytes", "rest": "bytes",
                 "tail16": "bytes[16]", "pre8": "bytes[8]", "post16": "bytes[16]"},
         globals={DISC + "Discover._auto_connect": "const:False"},
         requires=["len(name) <= 255", "len(rest) <= 1000"],
         let={"data": "(pre8 + disc_reply_v2(head20, device_id, head14, disc_body(ip_rev, port, pad2, sn, name, rest), tail16) + post16) if version == 3 else disc_reply_v2(head20, device_id, head14, disc_body(ip_rev, port, pad2, sn, name, rest), tail16)"},
         bind={"data": "data"},
         calls_inline=[DISC + "Discover._get_device_info", DISC + "Discover._get_device_class"],
         raises={},
         ensures={"identity_as_advertised": "result is None or (result._ip == ip and result._port == port and result._id == device_id and result._version == version "
                                            "and result._sn == sn.decode() and result._name == name.decode())",
                  "type_from_the_name": "result is None or (isinstance(result, AirConditioner) == (int(name.decode().split('_')[1], 16) == 0xAC))",
                  "lan_targets_the_device": "result is None or (result._lan._ip == ip and result._lan._port == port and result._lan._device_id == device_id)"},
         notes="C17 at device level: the object handed to the user carries exactly the advertised identity (None only when the text fields do not parse)")


from pyvc.dsl import has_own

contract(DISC + "_DiscoverProtocol.__init__",
         params={"self": "new:" + DISC + "_DiscoverProtocol", "target": "str", "discovery_packets": "int[0,16]", "interface": "opt:str"},
         modifies=["self.*"],
         raises={},
         ensures={"own_duplicate_filter_per_run": "has_own(self, '_discovered_ips') and has_own(self, 'tasks')",
                  "starts_empty": "len(self._discovered_ips) == 0 and len(self.tasks) == 0",
                  "settings": "self._target == target and self._discovery_packets == discovery_packets"},
         notes="C18: the de-duplication state belongs to one discovery run (a new protocol object per run starts with empty sets of its own)")


# ---- C17: discover_single reports the device that answered the host, whatever spelling of the host was given ---------------------
contract(DISC + "Discover.discover",
         params={"target": "str"},
         rtype="list:obj:msmart.base_device.Device",
         emits={"discover_target": "target", "discover_result": "result"},
         raises={},
         assumed="orchestration over the event loop (datagram endpoint, sleep, gather of the per-reply tasks); the per-reply work "
                 "(_DiscoverProtocol.*, _get_device*) is verified piece by piece, this call-site view only says that a list of devices comes back")

contract(DISC + "Discover.discover_single",
         params={"host": "str"},
         raises={},
         post_let={"T": "events('discover_target')", "R": "events('discover_result')"},
         ensures={"one_scan_of_the_given_host": "len(T) == 1 and T[0] == host",
                  "none_iff_nobody_answered": "(result is None) == (len(R[0]) == 0)",
                  "first_answer_is_reported": "implies(len(R[0]) > 0, same_object(result, R[0][0]))"})
