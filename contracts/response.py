"""Contracts for the response classes of msmart.device.AC.command (C11, C13, C14).

`state_decode` is the vendor's 0xC0 state-body layout (reference/T_0000_AC_00000Q14_2024013001.lua
:1664-1836, function binToModel): byte 1 bit0 power; byte 2 [mode:3][half:1][T-16:4]; byte 3 fan;
byte 7 low nibble swing; byte 8 bit5 strong wind, bit6 independent PTC, bit7 follow-me; byte 9
bit4 eco, bit5 purifier, bit3 PTC; byte 10 bit0 sleep, bit1 turbo, bit2 unit; bytes 11/12 sensor
temperatures with tenths in the nibbles of byte 15; byte 13 low 5 bits alternate set-point, bit5
filter; byte 14 display; byte 19 low 7 bits humidity; byte 21 bit7 8-degree heat.
Reading notes (DESIGN.md 4-C11): alternate set-point = code + 12 on all 31 codes; aux heat = bit 3.
"""
from pyvc.dsl import contract, fields, fold, implies, lemma, old, opaque
from contracts.frame import addck, crc8, frame_spec, wf_frame
from msmart.device.AC.command import (CapabilitiesResponse, EnergyUsageResponse, HumidityResponse, PropertiesResponse,
                                      Response, StateResponse)
from msmart.const import FrameType

CMD = "msmart.device.AC.command."


def state_decode(p):
    alt = p[13] & 0x1F
    whole = (alt + 12) if alt != 0 else ((p[2] & 0x0F) + 16)
    return {
        "power": (p[1] & 0x01) != 0,
        "mode": (p[2] >> 5) & 0x7,
        "temperature": whole + (0.5 if (p[2] & 0x10) else 0.0),
        "fan": p[3],
        "swing": p[7] & 0x0F,
        "turbo": (p[8] & 0x20) != 0 or (p[10] & 0x02) != 0,
        "independent_aux": (p[8] & 0x40) != 0,
        "follow_me": (p[8] & 0x80) != 0,
        "eco": (p[9] & 0x10) != 0,
        "purifier": (p[9] & 0x20) != 0,
        "aux": (p[9] & 0x08) != 0,
        "sleep": (p[10] & 0x01) != 0,
        "fahrenheit": (p[10] & 0x04) != 0,
        "filter": (p[13] & 0x20) != 0,
        "display": p[14] != 0x70,
        "humidity": (p[19] & 0x7F) if len(p) >= 20 else None,
        "freeze": ((p[21] & 0x80) != 0) if len(p) >= 22 else None,
    }


def coarse(data):
    return (data - 50) / 2


def trunc(x):
    return int(x)


def absf(x):
    return x if x >= 0 else -x


fields(CMD + "Response", _id="int", _payload="bytes")
fields(CMD + "StateResponse", power_on="opt:bool", target_temperature="opt:float", operational_mode="opt:int",
       fan_speed="opt:int", swing_mode="opt:int", turbo="opt:bool", eco="opt:bool", sleep="opt:bool", fahrenheit="opt:bool",
       indoor_temperature="opt:float", outdoor_temperature="opt:float", filter_alert="opt:bool", display_on="opt:bool",
       freeze_protection="opt:bool", follow_me="opt:bool", purifier="opt:bool", target_humidity="opt:int",
       aux_heat="opt:bool", independent_aux_heat="opt:bool")
fields(CMD + "HumidityResponse", humidity="opt:int")
fields(CMD + "EnergyUsageResponse", total_energy="opt:float", current_energy="opt:float", real_time_power="opt:float",
       total_energy_binary="opt:float", current_energy_binary="opt:float", real_time_power_binary="opt:float")

# ---- C11: temperatures ---------------------------------------------------------------------------------
contract(CMD + "StateResponse._parse_temperature",
         params={"self": "obj:" + CMD + "StateResponse", "data": "int[0,255]", "tenths": "int[0,9]", "fahrenheit": "bool"},
         let={"decimals": "tenths / 10"},
         bind={"decimals": "decimals"},
         ensures={
             "unknown_iff_sentinel": "(result is None) == (data == 0xFF)",
             "within_one_degree": "implies(data != 0xFF, absf(result - coarse(data)) < 1)",
             "celsius_tenths_exact": "implies(data != 0xFF and not fahrenheit and tenths != 0, "
                                     "absf(result) - trunc(absf(result)) == tenths / 10 and trunc(result) == trunc(coarse(data)))",
             "half_degree_steps_otherwise": "implies(data != 0xFF and (fahrenheit or tenths == 0), result * 2 == trunc(result * 2))",
         })

# ---- C11: state body -------------------------------------------------------------------------------------
contract(CMD + "StateResponse._parse",
         params={"self": "obj:" + CMD + "StateResponse", "payload": "memoryview"},
         requires=["len(payload) >= 16"],
         calls_inline=[CMD + "StateResponse._parse_temperature"],
         post_let={"D": "state_decode(payload)"},
         modifies=["self.*"],
         ensures={
             "power": "self.power_on == D['power']",
             "mode": "self.operational_mode == D['mode']",
             "temperature": "self.target_temperature == D['temperature']",
             "fan": "self.fan_speed == D['fan']",
             "swing": "self.swing_mode == D['swing']",
             "turbo": "self.turbo == D['turbo']",
             "eco": "self.eco == D['eco']",
             "sleep": "self.sleep == D['sleep']",
             "fahrenheit": "self.fahrenheit == D['fahrenheit']",
             "purifier": "self.purifier == D['purifier']",
             "follow_me": "self.follow_me == D['follow_me']",
             "aux": "self.aux_heat == D['aux'] and self.independent_aux_heat == D['independent_aux']",
             "filter": "self.filter_alert == D['filter']",
             "display": "self.display_on == D['display']",
             "humidity": "self.target_humidity == D['humidity']",
             "humidity_not_invented": "implies(len(payload) < 20, self.target_humidity == old(self.target_humidity))",
             "freeze": "implies(len(payload) >= 22, self.freeze_protection == D['freeze'])",
             "freeze_not_invented": "implies(len(payload) < 22, self.freeze_protection == old(self.freeze_protection))",
             "indoor_unknown_iff_sentinel": "(self.indoor_temperature is None) == (payload[11] == 0xFF)",
             "outdoor_unknown_iff_sentinel": "(self.outdoor_temperature is None) == (payload[12] == 0xFF)",
             "indoor_within_one": "implies(payload[11] != 0xFF and (payload[15] & 0xF) <= 9, absf(self.indoor_temperature - coarse(payload[11])) < 1)",
             "outdoor_within_one": "implies(payload[12] != 0xFF and (payload[15] >> 4) <= 9, absf(self.outdoor_temperature - coarse(payload[12])) < 1)",
         })
