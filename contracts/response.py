"""Contracts for the response classes of msmart.device.AC.command (C11, C13, C14).

`state_decode` is the vendor's 0xC0 state-body layout (reference/T_0000_AC_00000Q14_2024013001.lua
:1664-1836, function binToModel): byte 1 bit0 power; byte 2 [mode:3][half:1][T-16:4]; byte 3 fan;
byte 7 low nibble swing; byte 8 bit5 strong wind, bit6 independent PTC, bit7 follow-me; byte 9
bit4 eco, bit5 purifier, bit3 PTC; byte 10 bit0 sleep, bit1 turbo, bit2 unit; bytes 11/12 sensor
temperatures with tenths in the nibbles of byte 15; byte 13 low 5 bits alternate set-point, bit5
filter; byte 14 display; byte 19 low 7 bits humidity; byte 21 bit7 8-degree heat.
Reading notes (DESIGN.md 4-C11): alternate set-point = code + 12 on all 31 codes; aux heat = bit 3.
"""
from pyvc.dsl import conforms, contract, fields, fold, has_own, implies, lemma, old, opaque
from contracts.frame import addck, crc8, frame_spec, wf_frame
from msmart.device.AC.command import (CapabilitiesResponse, EnergyUsageResponse, HumidityResponse, PropertiesResponse,
                                      Response, StateResponse)
from msmart.const import FrameType

CMD = "msmart.device.AC.command."


def state_decode(p):
    alt = p[13] & 0x1F
    whole = (alt + 12) if alt != 0 else ((p[2] & 0x0F) + 16)
    return {
        "power": (p[1] & 0x01) != 0,
        "mode": (p[2] >> 5) & 0x7,
        "temperature": whole + (0.5 if (p[2] & 0x10) else 0.0),
        "fan": p[3],
        "swing": p[7] & 0x0F,
        "turbo": (p[8] & 0x20) != 0 or (p[10] & 0x02) != 0,
        "independent_aux": (p[8] & 0x40) != 0,
        "follow_me": (p[8] & 0x80) != 0,
        "eco": (p[9] & 0x10) != 0,
        "purifier": (p[9] & 0x20) != 0,
        "aux": (p[9] & 0x08) != 0,
        "sleep": (p[10] & 0x01) != 0,
        "fahrenheit": (p[10] & 0x04) != 0,
        "filter": (p[13] & 0x20) != 0,
        "display": p[14] != 0x70,
        "humidity": (p[19] & 0x7F) if len(p) >= 20 else None,
        "freeze": ((p[21] & 0x80) != 0) if len(p) >= 22 else None,
    }


def state_matches(r, p):
    """every field of the state response r equals the vendor decoding of the body p (C11 / C01)"""
    D = state_decode(p)
    return (r.power_on == D['power'] and r.operational_mode == D['mode'] and r.target_temperature == D['temperature']
            and r.fan_speed == D['fan'] and r.swing_mode == D['swing'] and r.turbo == D['turbo'] and r.eco == D['eco']
            and r.sleep == D['sleep'] and r.fahrenheit == D['fahrenheit'] and r.purifier == D['purifier']
            and r.follow_me == D['follow_me'] and r.aux_heat == D['aux'] and r.independent_aux_heat == D['independent_aux']
            and r.filter_alert == D['filter'] and r.display_on == D['display'] and r.target_humidity == D['humidity']
            and r.freeze_protection == D['freeze']
            and (r.indoor_temperature is None) == (p[11] == 0xFF) and (r.outdoor_temperature is None) == (p[12] == 0xFF))


def coarse(data):
    return (data - 50) / 2


def trunc(x):
    return int(x)


def absf(x):
    return x if x >= 0 else -x


fields(CMD + "Response", _id="int", _payload="bytes")
fields(CMD + "StateResponse", power_on="opt:bool", target_temperature="opt:float", operational_mode="opt:int[0,7]",
       fan_speed="int[0,255]", swing_mode="opt:int[0,15]", turbo="opt:bool", eco="opt:bool", sleep="opt:bool", fahrenheit="opt:bool",
       indoor_temperature="opt:float", outdoor_temperature="opt:float", filter_alert="opt:bool", display_on="opt:bool",
       freeze_protection="opt:bool", follow_me="opt:bool", purifier="opt:bool", target_humidity="opt:int[0,127]",
       aux_heat="opt:bool", independent_aux_heat="opt:bool")
fields(CMD + "HumidityResponse", humidity="opt:int[0,255]")
fields(CMD + "EnergyUsageResponse", total_energy="opt:float", current_energy="opt:float", real_time_power="opt:float",
       total_energy_binary="opt:float", current_energy_binary="opt:float", real_time_power_binary="opt:float")

# ---- C11: temperatures ---------------------------------------------------------------------------------
contract(CMD + "StateResponse._parse_temperature",
         params={"self": "obj:" + CMD + "StateResponse", "data": "int[0,255]", "tenths": "int[0,9]", "fahrenheit": "bool"},
         let={"decimals": "tenths / 10"},
         bind={"decimals": "decimals"},
         ensures={
             "unknown_iff_sentinel": "(result is None) == (data == 0xFF)",
             "within_one_degree": "implies(data != 0xFF, absf(result - coarse(data)) < 1)",
             "celsius_tenths_exact": "implies(data != 0xFF and not fahrenheit and tenths != 0, "
                                     "absf(result) - trunc(absf(result)) == tenths / 10 and trunc(result) == trunc(coarse(data)))",
             "half_degree_steps_otherwise": "implies(data != 0xFF and (fahrenheit or tenths == 0), result * 2 == trunc(result * 2))",
         })

# ---- C11: state body -------------------------------------------------------------------------------------
contract(CMD + "StateResponse._parse",
         params={"self": "obj:" + CMD + "StateResponse", "payload": "memoryview"},
         requires=["len(payload) >= 16"],
         calls_inline=[CMD + "StateResponse._parse_temperature"],
         post_let={"D": "state_decode(payload)"},
         modifies=["self.*"],
         ensures={
             "power": "self.power_on == D['power']",
             "mode": "self.operational_mode == D['mode']",
             "temperature": "self.target_temperature == D['temperature']",
             "fan": "self.fan_speed == D['fan']",
             "swing": "self.swing_mode == D['swing']",
             "turbo": "self.turbo == D['turbo']",
             "eco": "self.eco == D['eco']",
             "sleep": "self.sleep == D['sleep']",
             "fahrenheit": "self.fahrenheit == D['fahrenheit']",
             "purifier": "self.purifier == D['purifier']",
             "follow_me": "self.follow_me == D['follow_me']",
             "aux": "self.aux_heat == D['aux'] and self.independent_aux_heat == D['independent_aux']",
             "filter": "self.filter_alert == D['filter']",
             "display": "self.display_on == D['display']",
             "humidity": "implies(len(payload) >= 20, self.target_humidity == D['humidity'])",
             "humidity_not_invented": "implies(len(payload) < 20, self.target_humidity == old(self.target_humidity))",
             "freeze": "implies(len(payload) >= 22, self.freeze_protection == D['freeze'])",
             "freeze_not_invented": "implies(len(payload) < 22, self.freeze_protection == old(self.freeze_protection))",
             "indoor_unknown_iff_sentinel": "(self.indoor_temperature is None) == (payload[11] == 0xFF)",
             "outdoor_unknown_iff_sentinel": "(self.outdoor_temperature is None) == (payload[12] == 0xFF)",
             "indoor_within_one": "implies(payload[11] != 0xFF and (payload[15] & 0xF) <= 9, absf(self.indoor_temperature - coarse(payload[11])) < 1)",
             "outdoor_within_one": "implies(payload[12] != 0xFF and (payload[15] >> 4) <= 9, absf(self.outdoor_temperature - coarse(payload[12])) < 1)",
         })


# ---- C13 / C14: validation and dispatch -----------------------------------------------------------------
def body_check_ok(payload):
    """C13: the body check byte matches the CRC-8 or the additive checksum of the body"""
    return payload[-1] == crc8(payload[:-1]) or payload[-1] == addck(payload[:-1])


def outer_ok(frame):
    """C13: the frame checksum matches (two's complement of the sum of everything after the start byte)"""
    return len(frame) >= 1 and frame[-1] == addck(frame[1:-1])


def response_class_of(frame):
    """documented dispatch: id 0xC0 state, 0xB5 (query type) capabilities, 0xB0/0xB1 properties,
    0xC1 group 4 energy / group 5 humidity, anything else a plain Response"""
    rid = frame[10]
    if rid == 0xC0:
        return StateResponse
    if rid == 0xB5 and frame[9] == 0x03:
        return CapabilitiesResponse
    if rid == 0xB1 or rid == 0xB0:
        return PropertiesResponse
    if rid == 0xC1 and len(frame) > 13 and (frame[13] & 0xF) == 4:
        return EnergyUsageResponse
    if rid == 0xC1 and len(frame) > 13 and (frame[13] & 0xF) == 5:
        return HumidityResponse
    return Response


contract(CMD + "Response.validate",
         params={"payload": "memoryview"},
         requires=["len(payload) >= 1"],
         ensures={"accepted_only_if_body_check": "body_check_ok(payload)"},
         raises={CMD + "InvalidResponseException": {"when": "not body_check_ok(payload)"}})

contract(CMD + "StateResponse.__init__",
         params={"self": "obj:" + CMD + "StateResponse", "payload": "memoryview"},
         modifies=["self.*"],
         calls_inline=[CMD + "StateResponse._parse", CMD + "StateResponse._parse_temperature"],
         post_let={"D": "state_decode(payload)"},
         ensures={"len": "len(payload) >= 16",
                  "declared_attribute_types_hold": "conforms(self)",
                  "id": "self._id == payload[0] and self._payload == payload",
                  "power": "self.power_on == D['power']", "mode": "self.operational_mode == D['mode']",
                  "temperature": "self.target_temperature == D['temperature']", "fan": "self.fan_speed == D['fan']",
                  "swing": "self.swing_mode == D['swing']", "turbo": "self.turbo == D['turbo']", "eco": "self.eco == D['eco']",
                  "sleep": "self.sleep == D['sleep']", "fahrenheit": "self.fahrenheit == D['fahrenheit']",
                  "purifier": "self.purifier == D['purifier']", "follow_me": "self.follow_me == D['follow_me']",
                  "aux": "self.aux_heat == D['aux'] and self.independent_aux_heat == D['independent_aux']",
                  "filter": "self.filter_alert == D['filter']", "display": "self.display_on == D['display']",
                  "humidity": "self.target_humidity == D['humidity']",
                  "freeze": "self.freeze_protection == D['freeze']",
                  "indoor_unknown_iff_sentinel": "(self.indoor_temperature is None) == (payload[11] == 0xFF)",
                  "outdoor_unknown_iff_sentinel": "(self.outdoor_temperature is None) == (payload[12] == 0xFF)"},
         raises={"builtins.IndexError": {"when": "len(payload) < 16"}})

opaque("accepts", rtype="bool")


def accepts(frame):
    """Response.construct(frame) returns a response (definition; natively: try it)"""
    try:
        Response.construct(bytes(frame))
        return True
    except Exception:
        return False


contract(CMD + "Response.construct",
         params={"frame": "bytes"},
         defines_on_return="accepts(frame)",
         calls_inline=[CMD + "StateResponse.__init__", CMD + "StateResponse._parse", CMD + "StateResponse._parse_temperature"],
         rtype="union:obj:" + CMD + "StateResponse|obj:" + CMD + "CapabilitiesResponse|obj:" + CMD + "PropertiesResponse|obj:"
               + CMD + "EnergyUsageResponse|obj:" + CMD + "HumidityResponse|obj:" + CMD + "Response",
         ensures={"long_enough": "len(frame) >= 13",
                  "outer_checksum": "outer_ok(frame)",
                  "body_check_unless_properties": "isinstance(result, PropertiesResponse) or body_check_ok(frame[10:-1])",
                  "dispatch": "type(result) is response_class_of(frame)",
                  "payload": "result._payload == frame[10:-2] and result._id == frame[10]",
                  "c01.state_fields_are_the_decoded_body": "implies(isinstance(result, StateResponse), len(frame) >= 28 and state_matches(result, frame[10:-2]))"},
         raises={"msmart.frame.InvalidFrameException": {"when": "len(frame) < 13 or not outer_ok(frame)"},
                 CMD + "InvalidResponseException": {}})


# ---- capability and property lists (raise-set level here; functional contracts in capabilities.py) ------------
CAP_KEYS = {
    "anion": "bool", "aux_electric_heat": "bool", "breeze_away": "bool", "breeze_control": "bool", "breezeless": "bool",
    "buzzer": "bool", "display_control": "bool", "energy_stats": "bool", "energy_setting": "bool", "energy_bcd": "bool",
    "fahrenheit": "bool", "fan_silent": "bool", "fan_low": "bool", "fan_medium": "bool", "fan_high": "bool", "fan_auto": "bool",
    "fan_custom": "bool", "filter_notice": "bool", "filter_clean": "bool", "humidity_auto_set": "bool",
    "humidity_manual_set": "bool", "heat_mode": "bool", "cool_mode": "bool", "dry_mode": "bool", "auto_mode": "bool",
    "aux_heat_mode": "bool", "aux_mode": "bool", "eco": "bool", "freeze_protection": "bool", "ieco": "bool",
    "turbo_heat": "bool", "turbo_cool": "bool", "rate_select_2_level": "bool", "rate_select_5_level": "bool",
    "self_clean": "bool", "smart_eye": "bool", "swing_horizontal_angle": "bool", "swing_vertical_angle": "bool",
    "swing_horizontal": "bool", "swing_vertical": "bool", "wind_off_me": "bool", "wind_on_me": "bool",
    "cool_min_temperature": "float", "cool_max_temperature": "float", "auto_min_temperature": "float",
    "auto_max_temperature": "float", "heat_min_temperature": "float", "heat_max_temperature": "float", "decimals": "bool",
}

PROP_KEYS = {0x0009: "int[0,255]", 0x000A: "int[0,255]", 0x0015: "int[0,255]", 0x0018: "bool", 0x001A: "int[0,255]",
             0x0039: "bool", 0x0042: "bool", 0x0043: "int[0,255]", 0x0048: "int[0,255]", 0x004B: "int[0,255]",
             0x00E3: "bool", 0x021E: "int[0,255]"}

fields(CMD + "CapabilitiesResponse", _capabilities="symdict:CAP_KEYS", _additional_capabilities="bool")
fields(CMD + "PropertiesResponse", _properties="symdict:PROP_KEYS:enum:" + CMD + "PropertyId")

contract(CMD + "CapabilitiesResponse._parse_capabilities",
         params={"self": "obj:" + CMD + "CapabilitiesResponse", "payload": "memoryview"},
         modifies=["self._capabilities", "self._additional_capabilities"],
         raises={"builtins.IndexError": {}},
         ensures={"has_count": "len(payload) >= 2"},
         loops={"0": {"match": "range(0, count)", "modifies": ["self._capabilities"],
                      "havoc": {"self._capabilities": "symdict:CAP_KEYS", "caps": "memoryview"}}})

contract(CMD + "CapabilitiesResponse.__init__",
         params={"self": "obj:" + CMD + "CapabilitiesResponse", "payload": "memoryview"},
         modifies=["self.*"],
         raises={"builtins.IndexError": {}},
         ensures={"id": "self._id == payload[0] and self._payload == payload"})

contract(CMD + "PropertiesResponse._parse",
         params={"self": "obj:" + CMD + "PropertiesResponse", "payload": "memoryview"},
         modifies=["self._properties"],
         raises={"builtins.IndexError": {}},
         ensures={"has_count": "len(payload) >= 2"},
         loops={"0": {"match": "range(0, count)", "modifies": ["self._properties"],
                      "havoc": {"self._properties": "symdict:PROP_KEYS:enum:" + CMD + "PropertyId", "props": "memoryview"}}})

contract(CMD + "PropertiesResponse.__init__",
         params={"self": "new:" + CMD + "PropertiesResponse", "payload": "memoryview"},
         calls_inline=[CMD + "PropertiesResponse._parse"],
         modifies=["self.*"],
         raises={"builtins.IndexError": {}},
         ensures={"id": "self._id == payload[0] and self._payload == payload",
                  "own_dictionary": "has_own(self, '_properties')"},
         notes="C16: every response object has its own property dictionary (two property frames of one exchange must not share one)")


# ---- C13: an un-fixed-up single byte corruption is always rejected (checksum arithmetic) ------------------------------------
lemma("C13.sum_split.base",
      params={"s": "bytes", "k": "int[0,1099511627776]"},
      requires=["k <= len(s)"],
      ensures={"base": "sum(s[:k]) == sum(s[:k]) + sum(s[k:k])"})

lemma("C13.sum_split.step",
      params={"s": "bytes", "k": "int[0,1099511627776]", "n": "int[0,1099511627776]"},
      requires=["k <= n and n < len(s)", "sum(s[:n]) == sum(s[:k]) + sum(s[k:n])"],
      ensures={"step": "sum(s[:n + 1]) == sum(s[:k]) + sum(s[k:n + 1])"},
      notes="induction step of  sum(s[:n]) = sum(s[:k]) + sum(s[k:n])  (hypothesis as pre-condition); with the base case this is the split lemma used below")

lemma("C13.single_byte_corruption_is_rejected",
      params={"f": "bytes", "i": "int[1,1099511627776]", "v": "byte"},
      requires=["len(f) >= 2 and i < len(f)", "outer_ok(f)", "v != f[i]",
                # instances of the split lemma proved above (s = f[1:-1] resp. the corrupted copy, k = i - 1)
                "implies(i < len(f) - 1, sum(f[1:-1]) == sum(f[1:i]) + f[i] + sum(f[i + 1:-1]))"],
      let={"g": "f[:i] + bytes([v]) + f[i + 1:]"},
      ensures={"corrupted_frame_fails_the_outer_checksum": "not outer_ok(g)"})


# ---- C13: a single-byte body substitution WITH the outer checksum recomputed ---------------------------------------------------
# Response.validate accepts a body p when p[-1] is the CRC-8 or the additive checksum of p[:-1] (either one, by design).
# crc_changes:  substituting one byte of the CRC-covered part always changes the CRC-8 (the table is a permutation); proved by
#   A  crc8_step is injective in the data byte for a fixed state and in the state for a fixed data byte   (bit-vectors)
#   B  crc8(s[:n]) == crc8_from(crc8(s[:k]), s[k:n])                     split lemma, induction on n    (base / step)
#   C  x != y  ==>  crc8_from(x, t[:m]) != crc8_from(y, t[:m])              divergence, induction on m     (base / step)
# and the characterisation `char`: a substituted body is accepted only through the OTHER of the two checks (the one the
# original body did not rely on).  The literal clause of the property ("every such substitution is dropped") is the lemma
# C13.fixed_up_substitution_is_dropped: it is refuted exactly by these by-design cases (known finding F7).
from contracts.frame import crc8_step  # noqa: E402


def crc8_from(c, s):
    return fold(crc8_step, c, s, "crc8")


def body_ok(p):
    """Response.validate's rule (C13 statement): the trailing check byte matches the CRC-8 or the additive checksum of the body"""
    return len(p) >= 1 and (p[-1] == crc8(p[:-1]) or p[-1] == addck(p[:-1]))


lemma("C13.crc_step_injective",
      params={"c": "byte", "c2": "byte", "m": "byte", "m2": "byte"}, reveal=["crc8_step"],
      ensures={"in_the_data_byte": "implies(crc8_step(c, m) == crc8_step(c, m2), m == m2)",
               "in_the_state": "implies(crc8_step(c, m) == crc8_step(c2, m), c == c2)"})

lemma("C13.crc_split.base",
      params={"s": "bytes", "k": "int[0,1099511627776]"},
      requires=["k <= len(s)"],
      ensures={"base": "crc8(s[:k]) == crc8_from(crc8(s[:k]), s[k:k])"})

lemma("C13.crc_split.step",
      params={"s": "bytes", "k": "int[0,1099511627776]", "n": "int[0,1099511627776]"},
      requires=["k <= n and n < len(s)", "crc8(s[:n]) == crc8_from(crc8(s[:k]), s[k:n])"],
      ensures={"step": "crc8(s[:n + 1]) == crc8_from(crc8(s[:k]), s[k:n + 1])"})

lemma("C13.crc_diverges.base",
      params={"t": "bytes", "x": "byte", "y": "byte"},
      requires=["x != y"],
      ensures={"base": "crc8_from(x, t[:0]) != crc8_from(y, t[:0])"})

lemma("C13.crc_diverges.step",
      params={"t": "bytes", "x": "byte", "y": "byte", "m": "int[0,1099511627776]"},
      requires=["m < len(t)", "crc8_from(x, t[:m]) != crc8_from(y, t[:m])",
                # instance of lemma A for the two states reached after m bytes and the next data byte
                "implies(crc8_step(crc8_from(x, t[:m]), t[m]) == crc8_step(crc8_from(y, t[:m]), t[m]), crc8_from(x, t[:m]) == crc8_from(y, t[:m]))"],
      ensures={"step": "crc8_from(x, t[:m + 1]) != crc8_from(y, t[:m + 1])"})

SUBST = {"p": "bytes", "i": "int[0,1099511627776]", "v": "byte"}
SUBST_REQ = ["len(p) >= 2 and i < len(p) - 1", "v != p[i]"]
SUBST_CRC_HYP = [
    # instance of B (s = p[:-1], k = i + 1, n = len(p) - 1): the CRC of the body continues from the state after byte i
    "crc8(p[:-1]) == crc8_from(crc8(p[:i + 1]), p[i + 1:-1])",
    # instance of A (data byte): different bytes at position i give different states after it
    "implies(crc8_step(crc8(p[:i]), p[i]) == crc8_step(crc8(p[:i]), v), p[i] == v)",
    # instance of C (t = p[i + 1:-1], m = len(t)): different states stay different over the common suffix
    "implies(crc8_step(crc8(p[:i]), p[i]) != crc8_step(crc8(p[:i]), v), "
    "crc8_from(crc8_step(crc8(p[:i]), p[i]), p[i + 1:-1]) != crc8_from(crc8_step(crc8(p[:i]), v), p[i + 1:-1]))"]
SUBST_HYP = SUBST_CRC_HYP + [
    # instance of the sum split lemma (s = p[:-1], k = i)
    "sum(p[:-1]) == sum(p[:i]) + p[i] + sum(p[i + 1:-1])"]

lemma("C13.crc_changes",
      params=SUBST, requires=SUBST_REQ + SUBST_CRC_HYP,
      let={"g": "p[:i] + bytes([v]) + p[i + 1:]"},
      ensures={"a_substituted_byte_changes_the_crc": "crc8(g[:-1]) != crc8(p[:-1])"})

lemma("C13.fixed_up_substitution.char",
      params=SUBST, requires=SUBST_REQ + SUBST_HYP + ["body_ok(p)"],
      let={"g": "p[:i] + bytes([v]) + p[i + 1:]"},
      ensures={"accepted_only_through_the_other_check":
               "implies(body_ok(g), (p[-1] == crc8(p[:-1]) and p[-1] != addck(p[:-1]) and g[-1] == addck(g[:-1]) and g[-1] != crc8(g[:-1])) or "
               "(p[-1] == addck(p[:-1]) and p[-1] != crc8(p[:-1]) and g[-1] == crc8(g[:-1]) and g[-1] != addck(g[:-1])))",
               "a_body_valid_under_both_checks_has_no_accepted_substitution":
               "implies(p[-1] == crc8(p[:-1]) and p[-1] == addck(p[:-1]), not body_ok(g))"},
      notes="C13: with the outer checksum recomputed a substituted body byte (not the check byte) is accepted only when the new body "
            "happens to satisfy the check the original did not use; Response.construct.post.body_check_unless_properties ties acceptance "
            "of a non-property frame to body_ok")

lemma("C13.fixed_up_substitution_is_dropped",
      params=SUBST, requires=SUBST_REQ + SUBST_HYP + ["body_ok(p)"],
      let={"g": "p[:i] + bytes([v]) + p[i + 1:]"},
      ensures={"literal_clause_of_the_property": "not body_ok(g)"},
      notes="the literal second sentence of C13; refuted by design (either check is accepted): known finding F7")
